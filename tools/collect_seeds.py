#!/usr/bin/env python3
"""Copies evaluated seeded changes from /tmp/seed/outNN/{a,b} into /verif/seeded/<Cnn>-<x>/ and prints the catch table."""
import json, os, shutil, glob, re, sys
# usage: collect_seeds.py [base-dir] [suffix map, e.g. a=c,b=d]
BASE = sys.argv[1] if len(sys.argv) > 1 else '/tmp/seed'
REN = dict(x.split('=') for x in sys.argv[2].split(',')) if len(sys.argv) > 2 else {}
rows = []
for d in sorted(glob.glob(BASE + '/out*/[ab]')):
    try:
        res = json.load(open(os.path.join(d, 'result.json')))
        meta = json.load(open(os.path.join(d, 'meta.json')))
    except Exception as e:
        print('skip', d, e); continue
    pid = meta['property']; x = os.path.basename(d); x = REN.get(x, x)
    valid = res.get('demo_passes_without_patch') and res.get('demo_fails_with_patch') and res.get('suite_passes_with_patch')
    dst = f'/verif/seeded/{pid}-{x}'
    os.makedirs(dst, exist_ok=True)
    shutil.copy(os.path.join(d, 'patch.diff'), dst)
    shutil.copy(os.path.join(d, 'demo.rs'), dst)
    caught = {}
    for p, v in res.get('checks', {}).items():
        key = None
        if v.get('violation'):
            m = re.search(r'key=(.*)$', v['violation']); key = m.group(1)[:160] if m else 'violation'
        caught[p] = {'exit': v['exit'], 'key': key}
        src = os.path.join(d, f'caught-by-{p}.json')
        if os.path.exists(src):
            shutil.copy(src, os.path.join(dst, f'caught-by-{p}.json'))
    out = {
        'property': pid,
        'summary': meta.get('summary'),
        'needs': meta.get('needs'),
        'files': meta.get('files'),
        'author': 'independent sub-agent given only the property text and a scratch worktree',
        'verified_by_me': {
            'patch_applies_at': os.popen('git -C /repo rev-parse --short HEAD').read().strip(),
            'existing_58_tests_pass_with_patch': res.get('suite_passes_with_patch'),
            'tests_passed_count': res.get('suite_passed_count'),
            'demo_passes_without_patch': res.get('demo_passes_without_patch'),
            'demo_fails_with_patch': res.get('demo_fails_with_patch'),
            'how': 'tools/seed_eval.py: scratch worktree of /repo HEAD under /tmp, demo copied in, `cargo test` with and without `git apply patch.diff`, then `PV_REPO=<worktree> ./pv check <Cnn> quick` (scratch harness build); worktree and build removed afterwards',
        },
        'checks_run_against_it': caught,
        'agent_ran': meta.get('ran'),
    }
    json.dump(out, open(os.path.join(dst, 'meta.json'), 'w'), indent=1)
    rows.append((f'{pid}-{x}', valid, meta.get('summary', '')[:150], meta.get('needs', '')[:170], caught))
print('| seed | breaks | needs | caught by (quick tier) |')
print('|---|---|---|---|')
for name, valid, summ, needs, caught in rows:
    c = '; '.join(f"{p}: `{v['key'][:70]}`" if v['exit'] == 1 else f"{p}: missed" for p, v in caught.items())
    print(f"| {name}{'' if valid else ' (NOT VALIDATED)'} | {summ} | {needs} | {c} |")
