#!/bin/bash
# tools/prefix_check.sh <fix-commit> <Cnn> [tier]  -- runs a check against the parent of a fix commit
# (scratch worktree + scratch harness build under /tmp, removed afterwards). Expect a VIOLATION.
set -u
sha="$1"; prop="$2"; tier="${3:-quick}"
wt="/tmp/pvwt-$sha"
git -C /repo worktree remove --force "$wt" >/dev/null 2>&1
git -C /repo worktree add --detach "$wt" "$sha^" >/dev/null 2>&1 || { echo "cannot create worktree"; exit 2; }
cp /repo/Cargo.lock "$wt/" 2>/dev/null
PV_REPO="$wt" PV_SCRATCH="/tmp/pvscr-$sha" /verif/pv check "$prop" "$tier"
rc=$?
mkdir -p /verif/out/replays/prefix-$sha && cp /tmp/pvscr-$sha/root/out/replays/* /verif/out/replays/prefix-$sha/ 2>/dev/null
git -C /repo worktree remove --force "$wt" >/dev/null 2>&1
rm -rf "/tmp/pvscr-$sha"
exit $rc
