#!/usr/bin/env python3
"""Generates /verif/MANIFEST.json from the table below and validates it against the schema."""
import json, os, subprocess, sys
HERE = os.path.dirname(os.path.dirname(os.path.abspath(__file__)))

CHECKS = {
  # id: (level category, technique, level text, level note, design ref)
  "C01": ("exploration",
          "property-based testing (proptest) with a differential oracle: serde_json independent reader vs Event::from_json; enumerated member orders and integer boundary tables; libFuzzer campaign in the thorough tier",
          "Generated-input search: every generated/enumerated event text is parsed by pocket and by an independent serde_json reader; in-domain texts must be accepted with equal consumed length and equal fields, any accepted valid JSON must agree, out-of-range integers must be rejected. Holds on everything explored; not a proof.",
          "Trusts serde_json as the independent parser and the harness's domain predicate (DESIGN.md 4/C01).",
          "DESIGN.md section 4 C01"),
}

NOT_YET = {}

def main():
    props = [json.loads(l) for l in open(os.path.join(HERE, "properties.jsonl"))]
    checks = []
    na = []
    for p in props:
        pid = p["id"]
        if pid in CHECKS:
            cat, tech, text, note, ref = CHECKS[pid]
            checks.append({
                "property_id": pid,
                "quick_cmd": f"./pv check {pid} quick",
                "thorough_cmd": f"./pv check {pid} thorough",
                "evidence_file": f"/verif/evidence/{pid}.json",
                "replay_cmd_template": f"./pv replay {pid} {{path}}",
                "engine": "pvcheck",
                "level_claimed": {"category": cat, "text": text, "design_ref": ref},
                "level_note": note,
                "technique": tech,
            })
        else:
            na.append({"property_id": pid, "reason": NOT_YET.get(pid, "check not built yet (work in progress; see DESIGN.md section 4 for the planned generated-input check)")})
    hooks_commits = subprocess.run(["git", "-C", "/repo", "log", "--format=%h", "--grep=verification hook"], capture_output=True, text=True).stdout.split()
    m = {
        "version": 1,
        "setup_cmd": "./pv setup",
        "hooks": {
            "guard": "cargo feature `verif` of pocket-db",
            "enable": "the harness depends on pocket-db with features=[\"verif\"] (harness/Cargo.toml); named points call pocket_db::verif::point",
            "baseline_off_cmd": "cd /repo && cargo test --workspace --no-fail-fast --offline",
            "source_commits": hooks_commits,
            "add_only": True,
        },
        "engines": [
            {"name": "pvcheck", "path": "/verif/harness", "serves_properties": sorted(CHECKS.keys()),
             "kind_free_text": "Rust binary driving proptest 1.11 TestRunner (fixed seeds from VERIF_SEED, 16 workers, two build profiles: chk = overflow checks + debug assertions, release), explicit oracles per property, shrinking to a JSON replay file"},
        ],
        "checks": checks,
        "notes": "All checks rebuild the harness against /repo's working tree (path dependencies) before running. Exit 0 held / 1 VIOLATION / 2 inconclusive (harness build failure, watchdog). Known findings: known_findings.jsonl; witnesses and regression cases: findings/.",
        "not_applicable": na,
    }
    out = os.path.join(HERE, "MANIFEST.json")
    json.dump(m, open(out, "w"), indent=1)
    try:
        import jsonschema
        jsonschema.validate(m, json.load(open("/root/.vp/MANIFEST.schema.json")))
        print("MANIFEST.json valid;", len(checks), "checks,", len(na), "not_applicable")
    except ImportError:
        print("jsonschema not importable here; run with python3-vt")

if __name__ == "__main__":
    main()
