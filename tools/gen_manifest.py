#!/usr/bin/env python3
"""Generates /verif/MANIFEST.json from the table below and validates it against the schema."""
import json, os, subprocess, sys
HERE = os.path.dirname(os.path.dirname(os.path.abspath(__file__)))

CHECKS = {
  # id: (level category, technique, level text, level note, design ref)
  "C01": ("exploration",
          "property-based testing (proptest) with a differential oracle: serde_json independent reader vs Event::from_json; enumerated member orders and integer boundary tables; libFuzzer campaign in the thorough tier",
          "Generated-input search: every generated/enumerated event text is parsed by pocket and by an independent serde_json reader; in-domain texts must be accepted with equal consumed length and equal fields, any accepted valid JSON must agree, out-of-range integers must be rejected. Holds on everything explored; not a proof.",
          "Trusts serde_json as the independent parser and the harness's domain predicate (DESIGN.md 4/C01).",
          "DESIGN.md section 4 C01"),
  "C02": ("exploration",
          "property-based testing (proptest): round-trip and canonical-form oracle over one model built from parts and from two independent JSON renderings into dirty buffers; serde_json reads as_json output",
          "Generated-input search over event models x rendering plans x buffer pre-fill patterns; byte-identity, ==, Hash, as_json validity and from_json(as_json(e)) == e are compared exactly.",
          "Trusts serde_json to read as_json output; strings are valid UTF-8 by construction.",
          "DESIGN.md section 4 C02"),
  "C03": ("exploration",
          "property-based testing with systematic mutators over generated valid texts (prefix, byte substitution, deletion, duplication, insertion, splice, lead-byte-before-quote), enumerated prefixes / buffer lengths / byte values, process-isolated deep nesting; robustness oracle (no panic, canaries, consumed <= len, accessor panel total); ASan libFuzzer targets in the thorough tier",
          "Generated-input search for panics, aborts, out-of-window writes and ill-formed successes over nine parsing entry points and output buffer lengths from 0 upward, in builds with and without overflow checks.",
          "Silent out-of-bounds reads are visible only to the ASan fuzz targets (thorough tier); hangs are reported as inconclusive by a watchdog.",
          "DESIGN.md section 4 C03"),
  "C04": ("exploration",
          "stateful property-based testing (proptest op sequences + interpreter): model map offset -> submitted bytes checked after every step of store/remove/delete/vanish/reopen histories that cross file-growth steps",
          "Generated histories against a real Store in a scratch directory; every offset ever returned is re-read after every step (byte equality, pairwise distinct), untouched regular events are re-read by id, across growth and real reopen (LMDB environment closed and reopened).",
          "Runs in the chk profile (debug assertions: 2048-byte event-map chunks) and, with a smaller share of the cases, in the release profile (4 MiB chunks, with events of hundreds of KiB).",
          "DESIGN.md section 4 C04"),
  "C05": ("exploration",
          "stateful property-based testing: generated history then generated filters from the same colliding pools; oracle = independent NIP-01 predicate over the retrievable set + screening table; newest-k multiset check; scraper-gate condition",
          "Generated (history, filter, screen, allowances) cases; answer must equal the reference set exactly (no duplicates, newest first, newest-k by created_at multiset under limit, redacted flag only with cause, scraper refusal only when not covered).",
          "Retrievable set taken from get_event_by_id (C09/C11/C18 decide whether it is right); tag names restricted to single ASCII letters for exactness.",
          "DESIGN.md section 4 C05"),
  "C09": ("exploration",
          "stateful property-based testing with a per-address invariant checked after every step (at most one retrievable event per address via id, address lookup and query), replacement/refusal effect oracle per store; exhaustive enumeration of all 65,536 kinds",
          "Generated histories concentrated on neighbouring addresses (NUL-extended, 182-byte-prefix-sharing, >182-byte d values); invariant and per-store effects checked after every step.",
          "Equal timestamps leave the outcome free; parameterised events without d hold no address.",
          "DESIGN.md section 4 C09"),
  "C10": ("exploration",
          "stateful property-based testing: deletion requests mixing own/foreign/absent/malformed targets at any position; invariant over every foreign retrievable event and address marker, plus an immediate remove+resubmit probe",
          "Generated histories; after every kind-5 store (whatever it returns) every other author's retrievable event is still retrievable and byte-identical, their id/address markers are unchanged, and they are not refused as deleted when resubmitted.",
          "Only events stored when the request arrives are protected.",
          "DESIGN.md section 4 C10"),
  "C11": ("exploration",
          "stateful (model-based) property-based testing: reference model of accepted deletion requests (named ids, per-address maximum time); covered events unretrievable and refused, uncovered never refused, reported address deletion times monotone; continuations with real reopen and rebuild",
          "Generated histories with several requests per id/address in non-monotone timestamp order and every arrival order relative to the covered events; model invariants checked after every step.",
          "A request is accepted iff its store returned Ok; ids named by a foreign request while unknown to the store are unspecified.",
          "DESIGN.md section 4 C11"),
  "C12": ("exploration",
          "stateful property-based testing: full observable snapshot (lookups, markers, ~25-80 queries over every index plan, ten index counts, extra tables) compared before/after every failing store in histories biased towards failures after in-transaction effects; plus fault injection at system-call level (ptrace): each chosen ftruncate/pwrite/writev/mremap/msync/... call of a history run in a child process is made to fail with ENOSPC/EIO the child snapshots its still open store right after the failing store (must equal the reference snapshot before it) and again after the rest of the history (must equal a reference run of the history without that step: no latent damage), half of these histories on ext4",
          "Generated histories; snapshot(before) == snapshot(after) for every store that returns an error, whether the error is one of the store's own refusals or an injected I/O failure. Open known finding: a failed LMDB meta-page write leaves the environment in LMDB's fatal state (KNOWN-FINDING line); other violations are still reported.",
          "event_bytes excluded (orphan bytes of failed stores are unreachable). Injected failures need ptrace (linux/x86_64); where it is unavailable that part reports inconclusive (exit 2).",
          "DESIGN.md section 4 C12"),
  "C13": ("fault_enumeration",
          "fault injection by enumeration: generated histories run in child processes that SIGKILL themselves at the k-th named hook point, for every k; every third history is additionally run under ptrace and killed at the entry of every system call it makes (plus random-instant kills in the thorough tier); oracle = reopen succeeds, snapshot equals the reference state before or after the interrupted call, continuation equals the uninterrupted reference run",
          "Every named kill point of every generated history and, for every third history, every system-call boundary is executed (complete per history): reopen must succeed, the observable state must be the reference state before or after the interrupted call (vanish: in between), all retrievable events intact, and the rest of the history must behave as in the uninterrupted run.",
          "Process death (SIGKILL), not power loss; kill instants are the compiled-in points (incl. a half-copied append), every system-call entry, plus sampled random instants.",
          "DESIGN.md section 4 C13"),
  "C14": ("exploration",
          "schedule exploration with a controller that owns the interleaving at hook-point granularity (generated, shrinkable schedules) + serial-replay (linearizability-style) oracle in lock-acquisition order with per-read prefix windows; a hook-free 'one writer, three free-running readers' phase whose answers must follow the prefixes of the writer's program order; free-running multi-core stress in the thorough tier",
          "Generated (threads x ops, schedule) cases over a colliding 8-event universe; writer results and the final state must equal a serial replay in lock order and every read must equal the answer for some committed prefix inside its time window.",
          "Granularity = named points; only the LMDB writer lock is modelled (anything else blocking => inconclusive, exit 2); no file growth during a case.",
          "DESIGN.md section 4 C14"),
  "C15": ("exploration",
          "stateful property-based testing with a forced-layout trick (PROT_NONE page mapped with MAP_FIXED_NOREPLACE behind the mapping so a moving remap is deterministic); steps also remove events, submit refused deletion requests and let a second thread grow the map while this one looks events up (the writer held right after the remap); oracle = address identity and byte equality of fresh lookups for every held reference after every step; 30% of the sequences on a block file system (ext4), the rest on tmpfs",
          "Generated sequences of store / take-reference / grow steps (also from a second thread); every held reference must keep its address and bytes. On the pinned tree the mapping moves at growth: recorded as an open known finding (KNOWN-FINDING line), other violations of the property are still reported.",
          "Address identity of a fresh lookup stands in for validity of the old reference; the stale reference is never dereferenced.",
          "DESIGN.md section 4 C15"),
  "C16": ("exploration",
          "stateful property-based testing: snapshot equality across real close+reopen and across rebuild (incl. repeated rebuilds), compaction bound, backup opened through a copy",
          "Generated histories with Reopen/Rebuild at random positions; the full snapshot must be identical before/after, event_bytes within the padding bound, backup files present and equal to the pre-rebuild state.",
          "Reopen closes the LMDB environment for real (heed caches environments by path otherwise).",
          "DESIGN.md section 4 C16"),
  "C17": ("exploration",
          "stateful property-based testing: for every submitted event, every filter shape its own fields satisfy is cross-checked against get_event_by_id after every step; index entry counts against the retrievable count; drain-to-zero at the end",
          "Generated histories over events with repeated/long/NUL/empty/multi-string tags; all access paths must agree after every step and all nine index counts must be zero after removing everything.",
          "get_event_by_id defines 'retrievable'.",
          "DESIGN.md section 4 C17"),
  "C18": ("exploration",
          "stateful property-based testing: independently computed target sets for remove/vanish (incl. gift-wrap near misses, vanish with the key's own stored request) compared with the change of the retrievable set; markers/extra tables unchanged; resubmission and ephemeral clauses; vanish in stores of 5,300-70,000 events; injected system-call failures (a removal / vanish that reports success must have had its full effect)",
          "Generated histories; per Remove/Vanish the retrievable-set difference equals the reference target set, deletion markers and extra tables are unchanged, removed events are accepted again, ephemeral events are never retrievable.",
          "vanish() receives an event of which only the pubkey matters.",
          "DESIGN.md section 4 C18"),
  "C06": ("exploration",
          "property-based testing (proptest): differential against a hand-written NIP-01 predicate over small colliding pools, plus a metamorphic force-match / break-one-clause family",
          "Generated-input search over (filter, event) pairs; event_matches must equal the reference predicate for filters built from parts and parsed from JSON.",
          "The 20-line reference predicate in harness/src/model.rs is the specification.",
          "DESIGN.md section 4 C06"),
  "C07": ("exploration",
          "property-based testing (proptest) with a differential oracle (serde_json reader vs Filter::from_json), order-permutation metamorphic relation, as_json round trip; all 52x52 letter pairs, ordered triples and integer boundary tables enumerated",
          "Generated-input search over filter models x rendering plans x a second member order x boundary integer texts; acceptance and meaning must not depend on order, values must equal the independent reader's, out-of-range integers rejected or saturated, as_json valid and round-trips byte-identically (parsed and from-parts filters).",
          "Trusts serde_json; must-accept domain as stated in the evidence assumptions.",
          "DESIGN.md section 4 C07"),
  "C08": ("exploration",
          "property-based testing (proptest): independent canonicaliser (serde_json) + independent SHA-256 (harness, FIPS 180-4) + independent BIP-340 (secp256k1 0.29) as reference; single-field mutation family; all 128 ASCII characters enumerated",
          "Generated-input search in three directions: sign_new output verifies and has the canonical id; harness-signed events verify (from parts and through JSON); every single-field mutation is rejected.",
          "Trusts serde_json's string escaping as the NIP-01 canonical form and libsecp256k1 0.10 (secp256k1 0.29) as the independent verifier.",
          "DESIGN.md section 4 C08"),
  "C19": ("exploration",
          "property-based testing with constructed boundary sizes: part lists on both sides of every u16 limit through eight construction paths, output buffers needed-8..needed+8 and 0; faithful-or-error oracle with canaries",
          "Generated/enumerated search over sizes around 65,535 (tag section bytes, string length, tag count, ids/authors/kinds counts) and buffer lengths around the need; result must be an error or reproduce the parts exactly.",
          "'Needed' is the binary size of the value.",
          "DESIGN.md section 4 C19"),
  "C20": ("exploration",
          "property-based testing (proptest): algebraic laws (commutative, associative, idempotent merge; idempotent order-independent add; union = merge), hex round trip, totality of estimation over arbitrary register states, statistical envelope; single-register extremes enumerated",
          "Generated-input search over element multisets, permutations, partitions and arbitrary 256-byte register states; laws compared exactly through the hex export.",
          "Accuracy clause is statistical (40% envelope > 6 sigma) with elements from a seeded splitmix64 stream.",
          "DESIGN.md section 4 C20"),
}

NOT_YET = {}

def main():
    props = [json.loads(l) for l in open(os.path.join(HERE, "properties.jsonl"))]
    checks = []
    na = []
    for p in props:
        pid = p["id"]
        if pid in CHECKS:
            cat, tech, text, note, ref = CHECKS[pid]
            checks.append({
                "property_id": pid,
                "quick_cmd": f"./pv check {pid} quick",
                "thorough_cmd": f"./pv check {pid} thorough",
                "evidence_file": f"/verif/evidence/{pid}.json",
                "replay_cmd_template": f"./pv replay {pid} {{path}}",
                "engine": "pvcheck",
                "level_claimed": {"category": cat, "text": text, "design_ref": ref},
                "level_note": note,
                "technique": tech,
            })
        else:
            na.append({"property_id": pid, "reason": NOT_YET.get(pid, "check not built yet (work in progress; see DESIGN.md section 4 for the planned generated-input check)")})
    hooks_commits = subprocess.run(["git", "-C", "/repo", "log", "--format=%h", "--grep=verification hook"], capture_output=True, text=True).stdout.split()
    m = {
        "version": 1,
        "setup_cmd": "./pv setup",
        "hooks": {
            "guard": "cargo feature `verif` of pocket-db",
            "enable": "the harness depends on pocket-db with features=[\"verif\"] (harness/Cargo.toml); named points call pocket_db::verif::point",
            "baseline_off_cmd": "cd /repo && cargo test --workspace --no-fail-fast --offline",
            "source_commits": hooks_commits,
            "add_only": True,
        },
        "engines": [
            {"name": "pvcheck", "path": "/verif/harness", "serves_properties": sorted(CHECKS.keys()),
             "kind_free_text": "Rust binary driving proptest 1.11 TestRunner (fixed seeds from VERIF_SEED, 16 workers, two build profiles: chk = overflow checks + debug assertions, release), explicit oracles per property, shrinking to a JSON replay file"},
        ],
        "checks": checks,
        "notes": "All checks rebuild the harness against /repo's working tree (path dependencies) before running. Exit 0 held / 1 VIOLATION / 2 inconclusive (harness build failure, watchdog). Known findings: known_findings.jsonl; witnesses and regression cases: findings/.",
        "not_applicable": na,
    }
    out = os.path.join(HERE, "MANIFEST.json")
    json.dump(m, open(out, "w"), indent=1)
    try:
        import jsonschema
        jsonschema.validate(m, json.load(open("/root/.vp/MANIFEST.schema.json")))
        print("MANIFEST.json valid;", len(checks), "checks,", len(na), "not_applicable")
    except ImportError:
        print("jsonschema not importable here; run with python3-vt")

if __name__ == "__main__":
    main()
