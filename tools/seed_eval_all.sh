#!/bin/bash
# tools/seed_eval_all.sh <seed dirs...>  -- evaluates seeds with 4-way parallelism, results in <seed>/result.json
printf '%s\n' "$@" | xargs -P 4 -I{} sh -c '/verif/tools/seed_eval.py {} > {}/result.json 2>{}/result.err'
