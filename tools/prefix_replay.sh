#!/bin/bash
# tools/prefix_replay.sh <fix-commit> <Cnn> <replay-file>  -- replays a witness against the parent of a fix commit (expects VIOLATION)
set -u
sha="$1"; prop="$2"; file="$(realpath "$3")"
wt="/tmp/pvwt-$sha"
git -C /repo worktree remove --force "$wt" >/dev/null 2>&1
git -C /repo worktree add --detach "$wt" "$sha^" >/dev/null 2>&1 || { echo "cannot create worktree"; exit 2; }
cp /repo/Cargo.lock "$wt/" 2>/dev/null
PV_REPO="$wt" PV_SCRATCH="/tmp/pvscr-$sha" /verif/pv replay "$prop" "$file"
rc=$?
git -C /repo worktree remove --force "$wt" >/dev/null 2>&1
rm -rf "/tmp/pvscr-$sha"
exit $rc
