#!/usr/bin/env python3
"""tools/record.py fixed|open <replay.json> <name> <commit-or-> <what...>  -> copies the witness to findings/ and appends to known_findings.jsonl"""
import json, sys, os
HERE = os.path.dirname(os.path.dirname(os.path.abspath(__file__)))
status, replay, name, commit = sys.argv[1:5]
what = " ".join(sys.argv[5:])
r = json.load(open(replay))
if os.environ.get("ANY_PROFILE", "1") == "1":
    r["profile"] = "any"
dst = f"findings/{r['property']}-{name}.json"
json.dump(r, open(os.path.join(HERE, dst), "w"), indent=1)
entry = {"status": status, "property": r["property"], "key": r["key"],
         "what": (f"fixed: property={r['property']} {commit} {what}" if status == "fixed" else what),
         "witness": dst}
if status == "fixed":
    entry["commit"] = commit
open(os.path.join(HERE, "known_findings.jsonl"), "a").write(json.dumps(entry) + "\n")
print("recorded", dst, entry["key"])
