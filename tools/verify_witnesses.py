#!/usr/bin/env python3
"""For every fixed entry of known_findings.jsonl: replay its witness against the parent of its fix commit
(scratch worktree + scratch harness build) and expect a VIOLATION; prints a table."""
import json, subprocess, sys
rows = []
seen = set()
for line in open('/verif/known_findings.jsonl'):
    line = line.strip()
    if not line:
        continue
    k = json.loads(line)
    if k['status'] != 'fixed':
        continue
    key = (k['commit'], k['witness'])
    if key in seen:
        continue
    seen.add(key)
    p = subprocess.run(['/verif/tools/prefix_replay.sh', k['commit'], k['property'], '/verif/' + k['witness']], capture_output=True, text=True)
    viol = [l for l in p.stdout.splitlines() if l.startswith('VIOLATION')]
    rows.append((k['property'], k['commit'], k['witness'], p.returncode, viol[0][:140] if viol else p.stdout.strip().splitlines()[-1][:140] if p.stdout.strip() else ''))
    print(rows[-1], flush=True)
bad = [r for r in rows if r[3] != 1]
print(len(rows), 'witnesses;', len(bad), 'do not fail on the parent of their fix commit')
