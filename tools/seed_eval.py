#!/usr/bin/env python3
"""tools/seed_eval.py <seed_dir> [--props C01,C03] [--tier quick] [--skip-verify]

Evaluates one seeded change (a directory with patch.diff, demo.rs, meta.json):
  1. scratch worktree of /repo HEAD (under /tmp), patch applied;
  2. unless --skip-verify: the 58 existing tests pass with the patch; the demo fails with the patch
     and passes without it;
  3. each listed check (default: the property in meta.json) is run against the patched worktree
     (PV_REPO, scratch harness build) and must report a VIOLATION.
Prints one JSON line with the outcome; the worktree and scratch build are removed afterwards."""
import json, os, re, subprocess, sys, shutil, hashlib

def sh(cmd, cwd=None, env=None, timeout=3600):
    e = dict(os.environ)
    e["CARGO_NET_OFFLINE"] = "true"
    if env:
        e.update(env)
    p = subprocess.run(cmd, shell=True, cwd=cwd, env=e, capture_output=True, text=True, timeout=timeout)
    return p.returncode, p.stdout + p.stderr

def main():
    args = sys.argv[1:]
    seed = os.path.abspath(args[0])
    props = None
    tier = "quick"
    skip = False
    i = 1
    while i < len(args):
        if args[i] == "--props":
            props = args[i + 1].split(","); i += 2
        elif args[i] == "--tier":
            tier = args[i + 1]; i += 2
        elif args[i] == "--skip-verify":
            skip = True; i += 1
        else:
            i += 1
    meta = json.load(open(os.path.join(seed, "meta.json")))
    if props is None:
        props = [meta["property"]]
    tag = hashlib.sha1(seed.encode()).hexdigest()[:10]
    wt = f"/tmp/pvm-{tag}"
    scr = f"/tmp/pvms-{tag}"
    res = {"seed": seed, "property": meta["property"], "checks": {}}
    sh(f"git -C /repo worktree remove --force {wt}")
    rc, out = sh(f"git -C /repo worktree add --detach {wt} HEAD")
    if rc != 0:
        res["error"] = "worktree: " + out[-300:]
        print(json.dumps(res)); return
    try:
        shutil.copy("/repo/Cargo.lock", wt)
        demo = open(os.path.join(seed, "demo.rs")).read()
        m = re.search(r"(pocket-(?:db|types)/tests/[A-Za-z0-9_]+\.rs)", demo)
        demo_rel = m.group(1) if m else None
        crate = demo_rel.split("/")[0] if demo_rel else None
        feat = "--features verif" if (crate == "pocket-db" and "verif" in demo) else ""
        # demonstrations of changes that only show without debug assertions say so in their run command
        if re.search(r"cargo test[^\n]*--release", demo):
            feat += " --release"
        name = os.path.basename(demo_rel)[:-3] if demo_rel else None
        if not skip:
            if not demo_rel:
                res["verify"] = "cannot find the demo path in demo.rs"
            else:
                os.makedirs(os.path.dirname(os.path.join(wt, demo_rel)), exist_ok=True)
                shutil.copy(os.path.join(seed, "demo.rs"), os.path.join(wt, demo_rel))
                rc0, out0 = sh(f"cargo test -p {crate} {feat} --test {name} --offline", cwd=wt)
                res["demo_passes_without_patch"] = (rc0 == 0)
        rc, out = sh(f"git apply {seed}/patch.diff", cwd=wt)
        if rc != 0:
            res["error"] = "patch does not apply: " + out[-300:]
            print(json.dumps(res)); return
        if not skip:
            if demo_rel and os.path.exists(os.path.join(wt, demo_rel)):
                os.remove(os.path.join(wt, demo_rel))
            rc1, out1 = sh("cargo test --workspace --no-fail-fast --offline", cwd=wt)
            passed = sum(int(x) for x in re.findall(r"test result: ok\. (\d+) passed", out1))
            res["suite_passes_with_patch"] = (rc1 == 0 and passed >= 58)
            res["suite_passed_count"] = passed
            if demo_rel:
                shutil.copy(os.path.join(seed, "demo.rs"), os.path.join(wt, demo_rel))
                rc2, out2 = sh(f"cargo test -p {crate} {feat} --test {name} --offline", cwd=wt)
                res["demo_fails_with_patch"] = (rc2 != 0)
                os.remove(os.path.join(wt, demo_rel))
        for p in props:
            rc, out = sh(f"/verif/pv check {p} {tier}", cwd="/verif", env={"PV_REPO": wt, "PV_SCRATCH": scr})
            viol = [l for l in out.splitlines() if l.startswith("VIOLATION")]
            # keep the replay file of the first violation next to the seed
            if viol:
                m2 = re.search(r"replay=(\S+)", viol[0])
                if m2 and os.path.exists(m2.group(1)):
                    shutil.copy(m2.group(1), os.path.join(seed, f"caught-by-{p}.json"))
            res["checks"][p] = {"exit": rc, "violation": viol[0][:300] if viol else None,
                                "tail": out.strip().splitlines()[-1][:200] if out.strip() else ""}
    finally:
        sh(f"git -C /repo worktree remove --force {wt}")
        shutil.rmtree(scr, ignore_errors=True)
    print(json.dumps(res))

if __name__ == "__main__":
    main()
