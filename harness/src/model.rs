//! Event / filter models (plain data) and conversions to pocket types; shared string generators.

use pocket_types::{Id, Kind, OwnedEvent, OwnedFilter, OwnedTags, Pubkey, Sig, Time};
use proptest::prelude::*;
use serde::{Deserialize, Serialize};

pub fn hex(b: &[u8]) -> String {
    let mut s = String::with_capacity(b.len() * 2);
    for x in b {
        s.push_str(&format!("{:02x}", x));
    }
    s
}

pub fn unhex(s: &str) -> Option<Vec<u8>> {
    let b = s.as_bytes();
    if b.len() % 2 != 0 {
        return None;
    }
    let v = |c: u8| -> Option<u8> {
        match c {
            b'0'..=b'9' => Some(c - b'0'),
            b'a'..=b'f' => Some(c - b'a' + 10),
            b'A'..=b'F' => Some(c - b'A' + 10),
            _ => None,
        }
    };
    let mut out = Vec::with_capacity(b.len() / 2);
    for i in 0..b.len() / 2 {
        out.push(v(b[2 * i])? * 16 + v(b[2 * i + 1])?);
    }
    Some(out)
}

pub fn arr32(s: &str) -> [u8; 32] {
    let v = unhex(s).unwrap_or_default();
    let mut a = [0u8; 32];
    if v.len() == 32 {
        a.copy_from_slice(&v);
    }
    a
}

pub fn arr64(s: &str) -> [u8; 64] {
    let v = unhex(s).unwrap_or_default();
    let mut a = [0u8; 64];
    if v.len() == 64 {
        a.copy_from_slice(&v);
    }
    a
}

/// Bytes that serialise readably: as a string when valid UTF-8, else as hex.
#[derive(Clone, Debug, PartialEq, Eq, Hash, Serialize, Deserialize)]
pub enum Bytes {
    #[serde(rename = "utf8")]
    Utf8(String),
    #[serde(rename = "hex")]
    Hex(String),
}

impl Bytes {
    pub fn from_vec(v: Vec<u8>) -> Bytes {
        match String::from_utf8(v) {
            Ok(s) => Bytes::Utf8(s),
            Err(e) => Bytes::Hex(hex(e.as_bytes())),
        }
    }
    pub fn to_vec(&self) -> Vec<u8> {
        match self {
            Bytes::Utf8(s) => s.as_bytes().to_vec(),
            Bytes::Hex(h) => unhex(h).unwrap_or_default(),
        }
    }
}

#[derive(Clone, Debug, PartialEq, Eq, Hash, Serialize, Deserialize)]
pub struct MEvent {
    pub id: String,     // 64 hex
    pub pubkey: String, // 64 hex
    pub sig: String,    // 128 hex
    pub kind: u16,
    pub created_at: u64,
    pub tags: Vec<Vec<String>>,
    pub content: String,
}

impl MEvent {
    pub fn id_arr(&self) -> [u8; 32] {
        arr32(&self.id)
    }
    pub fn pk_arr(&self) -> [u8; 32] {
        arr32(&self.pubkey)
    }
    pub fn pid(&self) -> Id {
        Id::from_bytes(self.id_arr())
    }
    pub fn ppk(&self) -> Pubkey {
        Pubkey::from_bytes(self.pk_arr())
    }
    pub fn tags_size(&self) -> usize {
        tags_size(&self.tags)
    }
    pub fn binary_size(&self) -> usize {
        144 + self.tags_size() + 4 + self.content.len()
    }
    pub fn to_owned_event(&self) -> Result<OwnedEvent, String> {
        let tags = OwnedTags::new(&self.tags).map_err(|e| format!("tags: {e}"))?;
        OwnedEvent::new(
            self.pid(),
            Kind::from_u16(self.kind),
            self.ppk(),
            Sig::from_bytes(arr64(&self.sig)),
            &tags,
            Time::from_u64(self.created_at),
            self.content.as_bytes(),
        )
        .map_err(|e| format!("event: {e}"))
    }
    /// First value of the first tag named `d` (None when there is no such tag or it has no value)
    pub fn d_value(&self) -> Option<&str> {
        for t in &self.tags {
            if t.first().map(|s| s.as_str()) == Some("d") {
                return t.get(1).map(|s| s.as_str());
            }
        }
        None
    }
    pub fn short(&self) -> String {
        format!(
            "ev(id={}.. pk={}.. k={} t={} tags={:?})",
            &self.id[..4.min(self.id.len())],
            &self.pubkey[..4.min(self.pubkey.len())],
            self.kind,
            self.created_at,
            self.tags
                .iter()
                .map(|t| t.iter().map(|s| if s.len() > 12 { format!("{}…{}", &s[..s.char_indices().nth(8).map(|x| x.0).unwrap_or(0)], s.len()) } else { s.clone() }).collect::<Vec<_>>())
                .collect::<Vec<_>>()
        )
    }
}

pub fn tags_size(tags: &[Vec<String>]) -> usize {
    let mut n = 4 + 2 * tags.len();
    for t in tags {
        n += 2;
        for s in t {
            n += 2 + s.len();
        }
    }
    n
}

#[derive(Clone, Debug, PartialEq, Eq, Hash, Serialize, Deserialize, Default)]
pub struct MFilter {
    pub ids: Vec<String>,
    pub authors: Vec<String>,
    pub kinds: Vec<u16>,
    /// (tag name, values). The name is normally one letter.
    pub tags: Vec<(String, Vec<String>)>,
    pub since: Option<u64>,
    pub until: Option<u64>,
    pub limit: Option<u32>,
}

impl MFilter {
    pub fn to_owned_filter(&self) -> Result<OwnedFilter, String> {
        let ids: Vec<Id> = self.ids.iter().map(|s| Id::from_bytes(arr32(s))).collect();
        let authors: Vec<Pubkey> = self.authors.iter().map(|s| Pubkey::from_bytes(arr32(s))).collect();
        let kinds: Vec<Kind> = self.kinds.iter().map(|k| Kind::from_u16(*k)).collect();
        let parts: Vec<Vec<String>> = self
            .tags
            .iter()
            .map(|(n, vs)| {
                let mut v = vec![n.clone()];
                v.extend(vs.iter().cloned());
                v
            })
            .collect();
        let tags = OwnedTags::new(&parts).map_err(|e| format!("tags: {e}"))?;
        OwnedFilter::new(
            &ids,
            &authors,
            &kinds,
            &tags,
            self.since.map(Time::from_u64),
            self.until.map(Time::from_u64),
            self.limit,
        )
        .map_err(|e| format!("filter: {e}"))
    }
}

/// NIP-01 match predicate over the models (independent of pocket's code).
pub fn nip01_match(f: &MFilter, e: &MEvent) -> bool {
    if !f.ids.is_empty() && !f.ids.iter().any(|i| i.eq_ignore_ascii_case(&e.id)) {
        return false;
    }
    if !f.authors.is_empty() && !f.authors.iter().any(|a| a.eq_ignore_ascii_case(&e.pubkey)) {
        return false;
    }
    if !f.kinds.is_empty() && !f.kinds.contains(&e.kind) {
        return false;
    }
    if let Some(s) = f.since {
        if e.created_at < s {
            return false;
        }
    }
    if let Some(u) = f.until {
        if e.created_at > u {
            return false;
        }
    }
    for (name, values) in &f.tags {
        let ok = e.tags.iter().any(|t| {
            t.len() >= 2 && t[0] == *name && values.iter().any(|v| *v == t[1])
        });
        if !ok {
            return false;
        }
    }
    true
}

// ------------------------------------------------------------------------------------------
// String generators

/// Characters chosen to stress escaping and UTF-8 boundaries.
pub fn rich_char() -> BoxedStrategy<char> {
    prop_oneof![
        6 => prop::char::range('a', 'z'),
        2 => prop::char::range(' ', '~'),
        2 => prop::sample::select(vec!['"', '\\', '/', '\u{7f}', '\u{8}', '\u{c}', '\n', '\r', '\t', '\u{0}', '\u{b}', '\u{1f}', '\u{1}', '\u{1b}']),
        1 => (0u32..0x20).prop_map(|c| char::from_u32(c).unwrap()),
        2 => prop::sample::select(vec![
            '\u{80}', '\u{ff}', '\u{7ff}', '\u{800}', '\u{d7ff}', '\u{e000}', '\u{fffd}', '\u{fffe}', '\u{ffff}',
            '\u{10000}', '\u{10ffff}', '\u{2028}', '\u{2029}', 'é', '†', '𝄞', '中', '\u{feff}', '\u{1f600}'
        ]),
        1 => any::<char>(),
    ]
    .boxed()
}

pub fn rich_string(max: usize) -> BoxedStrategy<String> {
    prop_oneof![
        1 => Just(String::new()),
        8 => prop::collection::vec(rich_char(), 0..=max.min(12)).prop_map(|v| v.into_iter().collect()),
        2 => prop::collection::vec(rich_char(), 0..=max).prop_map(|v| v.into_iter().collect()),
        // strings of a "magic" byte length (hex id / signature sizes, index key width, u8 limits) that nevertheless
        // contain characters needing an escape
        1 => (prop::sample::select(vec![32usize, 63, 64, 65, 128, 182, 183, 255, 256]), prop::collection::vec((any::<u16>(), prop::sample::select(vec!['"', '\\', '\n', '\u{1}', '/', '\u{7f}', 'é'])), 0..4), prop::sample::select(vec!['a', 'f', '0', 'z']))
            .prop_map(|(len, specials, fill)| {
                let mut v: Vec<char> = std::iter::repeat(fill).take(len).collect();
                for (pos, ch) in specials {
                    let i = (pos as usize * len) >> 16;
                    v[i] = ch;
                }
                // keep the byte length at `len`: a two-byte character replaces two fillers
                let mut s: String = v.into_iter().collect();
                while s.len() > len {
                    let _ = s.pop();
                }
                s
            }),
        // strings that look like JSON structure
        2 => prop::sample::select(vec!["],[", "\"],[\"", "]", "[", ",", "\",\"", "}", "{\"id\":", "]]", "\\", "\\\"", ":", "[[\"a\"]]", "\\u0041", "\\u000b", "x\\u00e9", "\\n", "\\/", "\\u12", "\\\\u0041", "\\U0041"]).prop_map(|s| s.to_string()),
    ]
    .boxed()
}

pub fn plain_string(max: usize) -> BoxedStrategy<String> {
    prop::collection::vec(prop::char::range('a', 'z'), 0..=max)
        .prop_map(|v| v.into_iter().collect())
        .boxed()
}

pub fn hex32() -> BoxedStrategy<String> {
    prop_oneof![
        8 => any::<[u8; 32]>().prop_map(|a| hex(&a)),
        1 => Just("00".repeat(32)),
        1 => Just("ff".repeat(32)),
    ]
    .boxed()
}

pub fn hex64() -> BoxedStrategy<String> {
    (any::<[u8; 32]>(), any::<[u8; 32]>())
        .prop_map(|(a, b)| format!("{}{}", hex(&a), hex(&b)))
        .boxed()
}

pub fn kind_pool() -> Vec<u16> {
    vec![
        1, 0, 3, 5, 7, 1059, 9999, 10000, 10002, 19999, 20000, 20001, 29999, 30000, 30023, 39999, 40000, 65535,
    ]
}

pub fn any_kind() -> BoxedStrategy<u16> {
    prop_oneof![
        3 => prop::sample::select(kind_pool()),
        1 => any::<u16>(),
    ]
    .boxed()
}

pub fn any_time() -> BoxedStrategy<u64> {
    prop_oneof![
        4 => 100u64..116,
        1 => Just(0u64),
        1 => Just(u64::MAX),
        1 => Just(1u64 << 32),
        1 => Just((1u64 << 63) + 5),
        2 => any::<u64>(),
        2 => 1_600_000_000u64..1_800_000_000,
    ]
    .boxed()
}

pub fn tag_strategy(max_strings: usize, max_len: usize) -> BoxedStrategy<Vec<String>> {
    prop_oneof![
        1 => Just(Vec::<String>::new()),
        // NIP-40 expiration tags with boundary values (read by Event::is_expired)
        1 => prop::sample::select(vec!["0", "1", "1712693529", "99712693529", "18446744073709551615", "18446744073709551556", "18446744073709551616", "x", "", "-1", "1e3"])
            .prop_map(|v| vec!["expiration".to_string(), v.to_string()]),
        8 => (prop_oneof![
                3 => prop::sample::select(vec!["e", "p", "t", "a", "d", "E", "expiration", ""]).prop_map(|s| s.to_string()),
                1 => rich_string(max_len),
            ],
            prop::collection::vec(rich_string(max_len), 0..=max_strings))
            .prop_map(|(n, mut v)| { v.insert(0, n); v }),
    ]
    .boxed()
}

/// A general event model for the type-level properties (ids/sigs arbitrary, not signed).
pub fn mevent_strategy(max_tags: usize, max_len: usize) -> BoxedStrategy<MEvent> {
    (
        hex32(),
        hex32(),
        hex64(),
        any_kind(),
        any_time(),
        prop::collection::vec(tag_strategy(4, max_len), 0..=max_tags),
        rich_string(max_len),
    )
        .prop_map(|(id, pubkey, sig, kind, created_at, tags, content)| MEvent {
            id,
            pubkey,
            sig,
            kind,
            created_at,
            tags,
            content,
        })
        .boxed()
}

// ------------------------------------------------------------------------------------------
// NIP-01 kind ranges and addresses, written out here so that no oracle asks the library under test

pub fn kind_is_replaceable(k: u16) -> bool {
    k == 0 || k == 3 || (10000..=19999).contains(&k)
}

pub fn kind_is_ephemeral(k: u16) -> bool {
    (20000..=29999).contains(&k)
}

pub fn kind_is_param_replaceable(k: u16) -> bool {
    (30000..=39999).contains(&k)
}

/// `kind:pubkey:d` (the d part may itself contain colons). None when malformed.
pub fn parse_addr(s: &str) -> Option<(u16, String, String)> {
    let mut it = s.splitn(3, ':');
    let k = it.next()?;
    let a = it.next()?;
    let d = it.next()?;
    if k.is_empty() || !k.bytes().all(|c| c.is_ascii_digit()) && !(k.starts_with('+') && k[1..].bytes().all(|c| c.is_ascii_digit()) && k.len() > 1) {
        return None;
    }
    let kind: u16 = k.parse().ok()?;
    let ab = unhex(a)?;
    if ab.len() != 32 {
        return None;
    }
    Some((kind, hex(&ab), d.to_string()))
}

/// The std::iter::Iterator protocol beyond `next`-until-`None`: the provided methods an implementation may
/// override (`nth`, `count`, `last`, `size_hint`) and the adaptors built on them (`skip`, `step_by`, `by_ref`)
/// must agree with plain collection. `make` creates a fresh iterator of the library's own type (no adaptor in
/// between, so that its own overrides are the ones called), `conv` turns an item into a comparable value and
/// `expected` is what collecting yields.
pub fn iter_protocol<T: PartialEq + std::fmt::Debug, I: Iterator>(what: &str, make: impl Fn() -> I, conv: impl Fn(I::Item) -> T, expected: &[T]) -> Result<(), String> {
    let len = expected.len();
    let (lo, hi) = make().size_hint();
    if lo > len || hi.map(|h| h < len).unwrap_or(false) {
        return Err(format!("INCONSISTENT: {what}: size_hint ({lo}, {hi:?}) excludes the real length {len}"));
    }
    if make().count() != len {
        return Err(format!("INCONSISTENT: {what}: count() differs from the number of items yielded ({len})"));
    }
    if make().last().map(&conv).as_ref() != expected.last() {
        return Err(format!("INCONSISTENT: {what}: last() differs from the last item yielded"));
    }
    let js: Vec<usize> = if len <= 6 { (0..=len).collect() } else { vec![0, 1, 2, len / 2, len - 1, len] };
    let ks: Vec<usize> = if len <= 6 { vec![0, 1, 2] } else { vec![0, 1, 2, len / 3] };
    for &j in &js {
        for &k in &ks {
            let mut it = make();
            for _ in 0..j {
                let _ = it.next();
            }
            let got = it.nth(k).map(&conv);
            if got.as_ref() != expected.get(j + k) {
                return Err(format!("INCONSISTENT: {what}: after {j} next() calls nth({k}) gives {:?}, item {} is {:?}", got, j + k, expected.get(j + k)));
            }
            let after = it.next().map(&conv);
            if j + k < len && after.as_ref() != expected.get(j + k + 1) {
                return Err(format!("INCONSISTENT: {what}: next() after nth({k}) (preceded by {j} next() calls) gives {:?}, expected {:?}", after, expected.get(j + k + 1)));
            }
            let stepped: Vec<T> = make().skip(j).step_by(k + 1).take(len + 1).map(&conv).collect();
            let want: Vec<&T> = expected.iter().skip(j).step_by(k + 1).collect();
            if stepped.len() != want.len() || stepped.iter().zip(want.iter()).any(|(a, b)| a != *b) {
                return Err(format!("INCONSISTENT: {what}: skip({j}).step_by({}) yields {} items {:?}, expected {} items", k + 1, stepped.len(), stepped.iter().take(4).collect::<Vec<_>>(), want.len()));
            }
        }
        let mut it = make();
        let mut both: Vec<T> = it.by_ref().take(j).map(&conv).collect();
        both.extend(it.map(&conv));
        if both.len() != len || both.iter().zip(expected.iter()).any(|(a, b)| a != b) {
            return Err(format!("INCONSISTENT: {what}: by_ref().take({j}) followed by the rest differs from plain collection"));
        }
    }
    Ok(())
}
