//! JSON rendering plans (generator side) and the independent reader (oracle side, serde_json).

use crate::model::{MEvent, MFilter};
use proptest::prelude::*;
use serde::de::{MapAccess, Visitor};
use serde::{Deserialize, Deserializer, Serialize};
use serde_json::Value;
use std::fmt;

// ------------------------------------------------------------------------------------------
// Rendering

/// Supply of small choices (plain data so that cases shrink and replay); read cyclically via `Cur`.
#[derive(Clone, Debug, Serialize, Deserialize, Default)]
pub struct Choices {
    pub v: Vec<u8>,
}

impl Choices {
    pub fn new(v: Vec<u8>) -> Choices {
        Choices { v }
    }
    pub fn cur(&self) -> Cur<'_> {
        Cur {
            v: &self.v,
            pos: std::cell::Cell::new(0),
        }
    }
}

pub struct Cur<'a> {
    v: &'a [u8],
    pos: std::cell::Cell<usize>,
}

impl Cur<'_> {
    pub fn next(&self) -> u8 {
        if self.v.is_empty() {
            return 0;
        }
        let p = self.pos.get();
        self.pos.set(p + 1);
        self.v[p % self.v.len()]
    }
}

/// Cursors over a plan's choice supplies, created once per rendering.
pub struct PlanCur<'a> {
    pub ws: Cur<'a>,
    pub spell: Cur<'a>,
}

impl Plan {
    pub fn cur(&self) -> PlanCur<'_> {
        PlanCur {
            ws: self.ws.cur(),
            spell: self.spell.cur(),
        }
    }
}

pub fn choices(max: usize) -> BoxedStrategy<Choices> {
    prop_oneof![
        2 => Just(Choices::new(vec![])),
        5 => prop::collection::vec(any::<u8>(), 0..=max).prop_map(Choices::new),
    ]
    .boxed()
}

const WS: [&str; 6] = ["", "", " ", "\n", "\t\r ", "  \n"];

pub fn ws(c: &Cur) -> &'static str {
    WS[(c.next() as usize) % WS.len()]
}

fn short_escape(c: char) -> Option<&'static str> {
    Some(match c {
        '"' => "\\\"",
        '\\' => "\\\\",
        '/' => "\\/",
        '\u{8}' => "\\b",
        '\u{c}' => "\\f",
        '\n' => "\\n",
        '\r' => "\\r",
        '\t' => "\\t",
        _ => return None,
    })
}

fn u_escape(c: char, mixed: u8) -> String {
    let h = format!("{:04x}", c as u32);
    let mut out = String::from("\\u");
    for (i, ch) in h.chars().enumerate() {
        if (mixed >> i) & 1 == 1 {
            out.push(ch.to_ascii_uppercase());
        } else {
            out.push(ch);
        }
    }
    out
}

/// Render a JSON string literal with a per-character choice of escape spelling.
/// Never produces surrogate-pair escapes: non-BMP scalars are always written literally.
pub fn render_string(s: &str, spell: &Cur) -> String {
    let mut out = String::with_capacity(s.len() + 2);
    out.push('"');
    for c in s.chars() {
        let choice = spell.next();
        let must_escape = c == '"' || c == '\\' || (c as u32) < 0x20;
        let bmp = (c as u32) < 0x10000;
        match choice % 8 {
            // literal when legal, else the canonical escape
            0..=4 => {
                if !must_escape {
                    out.push(c);
                } else if let Some(e) = short_escape(c) {
                    out.push_str(e);
                } else {
                    out.push_str(&u_escape(c, 0));
                }
            }
            5 => {
                if let Some(e) = short_escape(c) {
                    out.push_str(e);
                } else if must_escape {
                    out.push_str(&u_escape(c, 0));
                } else {
                    out.push(c);
                }
            }
            _ => {
                if bmp {
                    out.push_str(&u_escape(c, choice >> 3));
                } else {
                    out.push(c);
                }
            }
        }
    }
    out.push('"');
    out
}

/// Canonical (minimal) rendering of a string: serde_json's.
pub fn canon_string(s: &str) -> String {
    serde_json::to_string(s).unwrap()
}

#[derive(Clone, Debug, Serialize, Deserialize)]
pub struct Unknown {
    pub pos: u8,
    pub name: String,
    pub value: String, // JSON text
}

#[derive(Clone, Debug, Serialize, Deserialize, Default)]
pub struct Plan {
    pub order: Vec<u8>,
    pub ws: Choices,
    pub spell: Choices,
    pub unknown: Vec<Unknown>,
}

impl Plan {
    pub fn canonical() -> Plan {
        Plan::default()
    }
}

pub fn unknown_name() -> BoxedStrategy<String> {
    prop_oneof![
        4 => prop::sample::select(vec![
            "search", "", "x", "i", "ids", "kin", "kinds", "contents", "created_a", "created_at2", "sig2", "si",
            "pubke", "pubkeys", "tag", "tagss", "conten", "#e", "relay", "ots", "ID", "Kind", "limit", "since",
            "until", "authors", "#", "#ee", "lim", "unti", "#_", "#[", "#1", "#`", "#^", "# ",
            // names of the other object kind's members, repeated members, and case variants of known names
            "id", "pubkey", "sig", "kind", "created_at", "tags", "content",
            "Limit", "SINCE", "Until", "IDs", "Ids", "Kinds", "Authors", "Id", "Content", "Tags", "Sig", "Pubkey", "Created_at", "#E"
        ])
        .prop_map(|s| s.to_string()),
        1 => crate::model::rich_string(6),
    ]
    .boxed()
}

fn json_scalar() -> BoxedStrategy<String> {
    prop_oneof![
        3 => prop::sample::select(vec![
            "0", "-0", "1", "0.5", "1e9", "-12.5E-3", "1e+21", "6.02E+23", "1E+2", "-0.0e-0", "true", "false", "null", "\"\"", "\"}\"", "\"]\"", "\"\\\"\"",
            "\"\\\\\"", "123456789012345678901234567890", "[]", "{}", "\"a,b\"", "\"{\\\"k\\\":1}\"", "9", "10"
        ])
        .prop_map(|s| s.to_string()),
        1 => (crate::model::rich_string(8), choices(8)).prop_map(|(s, c)| render_string(&s, &c.cur())),
    ]
    .boxed()
}

/// Any JSON value text up to the given depth.
pub fn json_value_text(depth: u32) -> BoxedStrategy<String> {
    let leaf = json_scalar();
    leaf.prop_recursive(depth, 24, 4, |inner| {
        prop_oneof![
            prop::collection::vec(inner.clone(), 0..4).prop_map(|v| format!("[{}]", v.join(","))),
            prop::collection::vec((unknown_name(), inner), 0..3).prop_map(|v| {
                let items: Vec<String> = v
                    .into_iter()
                    .map(|(k, val)| format!("{}:{}", canon_string(&k), val))
                    .collect();
                format!("{{{}}}", items.join(", "))
            }),
        ]
    })
    .boxed()
}

/// A leaf wrapped in `levels` containers; bit i of `pattern` (cyclic) says whether level i is an object or an
/// array. Reaches the parsers' nesting limits, which the recursive strategy above (depth <= 12) never does.
pub fn deep_nest_text() -> BoxedStrategy<String> {
    (
        prop_oneof![3 => 1u32..140, 2 => prop::sample::select(vec![31u32, 32, 33, 63, 64, 65, 66, 96, 120, 125, 126, 127, 128, 129])],
        prop_oneof![2 => Just(u64::MAX), 1 => Just(0u64), 1 => Just(0x5555_5555_5555_5555u64), 2 => any::<u64>()],
        json_scalar(),
    )
        .prop_map(|(levels, pattern, leaf)| {
            let mut open = String::new();
            let mut close = String::new();
            for i in 0..levels {
                if (pattern >> (i % 64)) & 1 == 1 {
                    open.push_str("{\"n\":");
                    close.insert(0, '}');
                } else {
                    open.push('[');
                    close.insert(0, ']');
                }
            }
            format!("{open}{leaf}{close}")
        })
        .boxed()
}

pub fn unknown_strategy(depth: u32) -> BoxedStrategy<Unknown> {
    (any::<u8>(), unknown_name(), prop_oneof![9 => json_value_text(depth), 1 => deep_nest_text()])
        .prop_map(|(pos, name, value)| Unknown { pos, name, value })
        .boxed()
}

pub fn plan_strategy(n_members: usize, max_unknown: usize, depth: u32) -> BoxedStrategy<Plan> {
    (
        Just((0..n_members as u8).collect::<Vec<u8>>()).prop_shuffle(),
        choices(24),
        choices(24),
        prop_oneof![
            3 => Just(Vec::new()),
            2 => prop::collection::vec(unknown_strategy(depth), 0..=max_unknown),
        ],
        any::<bool>(),
    )
        .prop_map(move |(order, ws, spell, unknown, canon_order)| Plan {
            order: if canon_order { (0..n_members as u8).collect() } else { order },
            ws,
            spell,
            unknown,
        })
        .boxed()
}

/// Assemble an object from already rendered (name, value) members according to the plan.
pub fn assemble(members: &[(String, String)], plan: &Plan, cur: &PlanCur) -> String {
    let n = members.len();
    let mut order: Vec<usize> = plan.order.iter().map(|x| *x as usize).filter(|x| *x < n).collect();
    for i in 0..n {
        if !order.contains(&i) {
            order.push(i);
        }
    }
    let mut items: Vec<(String, String)> = order.iter().map(|i| members[*i].clone()).collect();
    for u in &plan.unknown {
        let pos = (u.pos as usize) % (items.len() + 1);
        items.insert(pos, (canon_string(&u.name), u.value.clone()));
    }
    let w = &cur.ws;
    let mut out = String::new();
    out.push_str(ws(w));
    out.push('{');
    for (i, (k, v)) in items.iter().enumerate() {
        if i > 0 {
            out.push(',');
        }
        out.push_str(ws(w));
        out.push_str(k);
        out.push_str(ws(w));
        out.push(':');
        out.push_str(ws(w));
        out.push_str(v);
        out.push_str(ws(w));
    }
    if items.is_empty() {
        out.push_str(ws(w));
    }
    out.push('}');
    out
}

fn render_str_array(vals: &[String], plan: &PlanCur, escape: bool) -> String {
    let w = &plan.ws;
    let mut t = String::from("[");
    t.push_str(ws(w));
    for (j, s) in vals.iter().enumerate() {
        if j > 0 {
            t.push(',');
            t.push_str(ws(w));
        }
        if escape {
            t.push_str(&render_string(s, &plan.spell));
        } else {
            t.push('"');
            t.push_str(s);
            t.push('"');
        }
        t.push_str(ws(w));
    }
    t.push(']');
    t
}

pub fn render_tags(tags: &[Vec<String>], plan: &PlanCur) -> String {
    let w = &plan.ws;
    let mut t = String::from("[");
    t.push_str(ws(w));
    for (i, tag) in tags.iter().enumerate() {
        if i > 0 {
            t.push(',');
            t.push_str(ws(w));
        }
        t.push_str(&render_str_array(tag, plan, true));
        t.push_str(ws(w));
    }
    t.push(']');
    t
}

/// Render an event model. Member indices: 0 id, 1 pubkey, 2 created_at, 3 kind, 4 tags, 5 content, 6 sig.
pub fn render_event(e: &MEvent, plan: &Plan) -> String {
    let cur = plan.cur();
    let members = vec![
        ("\"id\"".to_string(), format!("\"{}\"", e.id)),
        ("\"pubkey\"".to_string(), format!("\"{}\"", e.pubkey)),
        ("\"created_at\"".to_string(), format!("{}", e.created_at)),
        ("\"kind\"".to_string(), format!("{}", e.kind)),
        ("\"tags\"".to_string(), render_tags(&e.tags, &cur)),
        ("\"content\"".to_string(), render_string(&e.content, &cur.spell)),
        ("\"sig\"".to_string(), format!("\"{}\"", e.sig)),
    ];
    assemble(&members, plan, &cur)
}

/// Render with explicit texts for kind / created_at (integer boundary tables).
pub fn render_event_with_ints(e: &MEvent, plan: &Plan, kind: &str, created_at: &str) -> String {
    let cur = plan.cur();
    let members = vec![
        ("\"id\"".to_string(), format!("\"{}\"", e.id)),
        ("\"pubkey\"".to_string(), format!("\"{}\"", e.pubkey)),
        ("\"created_at\"".to_string(), created_at.to_string()),
        ("\"kind\"".to_string(), kind.to_string()),
        ("\"tags\"".to_string(), render_tags(&e.tags, &cur)),
        ("\"content\"".to_string(), render_string(&e.content, &cur.spell)),
        ("\"sig\"".to_string(), format!("\"{}\"", e.sig)),
    ];
    assemble(&members, plan, &cur)
}

/// Filter member list in canonical order: ids, authors, kinds, tags..., limit, since, until.
pub fn filter_members(f: &MFilter, plan: &PlanCur, ints: Option<(&str, &str, &str)>) -> Vec<(String, String)> {
    let mut m = Vec::new();
    if !f.ids.is_empty() {
        m.push(("\"ids\"".to_string(), render_str_array(&f.ids, plan, false)));
    }
    if !f.authors.is_empty() {
        m.push(("\"authors\"".to_string(), render_str_array(&f.authors, plan, false)));
    }
    if !f.kinds.is_empty() {
        let w = &plan.ws;
        let mut t = String::from("[");
        t.push_str(ws(w));
        for (i, k) in f.kinds.iter().enumerate() {
            if i > 0 {
                t.push(',');
                t.push_str(ws(w));
            }
            t.push_str(&format!("{}", k));
            t.push_str(ws(w));
        }
        t.push(']');
        m.push(("\"kinds\"".to_string(), t));
    }
    for (name, vals) in &f.tags {
        m.push((format!("\"#{}\"", name), render_str_array(vals, plan, true)));
    }
    let (l, s, u) = match ints {
        Some((l, s, u)) => (
            if l.is_empty() { None } else { Some(l.to_string()) },
            if s.is_empty() { None } else { Some(s.to_string()) },
            if u.is_empty() { None } else { Some(u.to_string()) },
        ),
        None => (
            f.limit.map(|x| x.to_string()),
            f.since.map(|x| x.to_string()),
            f.until.map(|x| x.to_string()),
        ),
    };
    if let Some(l) = l {
        m.push(("\"limit\"".to_string(), l));
    }
    if let Some(s) = s {
        m.push(("\"since\"".to_string(), s));
    }
    if let Some(u) = u {
        m.push(("\"until\"".to_string(), u));
    }
    m
}

pub fn render_filter(f: &MFilter, plan: &Plan) -> String {
    let cur = plan.cur();
    let m = filter_members(f, &cur, None);
    assemble(&m, plan, &cur)
}

// ------------------------------------------------------------------------------------------
// Independent reader

#[derive(Debug, Clone)]
pub struct Ordered(pub Vec<(String, Value)>);

impl<'de> Deserialize<'de> for Ordered {
    fn deserialize<D: Deserializer<'de>>(d: D) -> Result<Self, D::Error> {
        struct V;
        impl<'de> Visitor<'de> for V {
            type Value = Ordered;
            fn expecting(&self, f: &mut fmt::Formatter) -> fmt::Result {
                write!(f, "a JSON object")
            }
            fn visit_map<A: MapAccess<'de>>(self, mut map: A) -> Result<Ordered, A::Error> {
                let mut v = Vec::new();
                while let Some((k, val)) = map.next_entry::<String, Value>()? {
                    v.push((k, val));
                }
                Ok(Ordered(v))
            }
        }
        d.deserialize_map(V)
    }
}

#[derive(Debug, Clone)]
pub struct TopObject {
    pub members: Vec<(String, Value)>,
    /// raw (undecoded) key texts, in order
    pub raw_keys: Vec<Vec<u8>>,
    /// raw value texts, in order
    pub raw_values: Vec<Vec<u8>>,
    /// offset just past the closing brace
    pub end: usize,
}

impl TopObject {
    pub fn count(&self, name: &str) -> usize {
        self.members.iter().filter(|(k, _)| k == name).count()
    }
    /// the value of the member; of its LAST occurrence when the name is repeated (what serde_json::Value, JSON.parse
    /// and Python's json report)
    pub fn get(&self, name: &str) -> Option<&Value> {
        self.members.iter().rev().find(|(k, _)| k == name).map(|(_, v)| v)
    }
    pub fn raw_value_of(&self, name: &str) -> Option<&[u8]> {
        self.members
            .iter()
            .rposition(|(k, _)| k == name)
            .and_then(|i| self.raw_values.get(i))
            .map(|v| v.as_slice())
    }
    /// true when the key is written literally (no escapes) in the text
    pub fn key_is_literal(&self, name: &str) -> bool {
        self.members
            .iter()
            .enumerate()
            .filter(|(_, (k, _))| k == name)
            .all(|(i, _)| self.raw_keys.get(i).map(|r| r.as_slice() == name.as_bytes()).unwrap_or(false))
    }
}

/// Parse the first JSON value of `text` (leading whitespace allowed) as an object.
pub fn read_top_object(text: &[u8]) -> Option<TopObject> {
    let mut de = serde_json::Deserializer::from_slice(text).into_iter::<Ordered>();
    let first = de.next()?;
    let obj = first.ok()?;
    let end = de.byte_offset();
    let (raw_keys, raw_values) = raw_top_members(&text[..end])?;
    if raw_keys.len() != obj.0.len() {
        return None;
    }
    Some(TopObject {
        members: obj.0,
        raw_keys,
        raw_values,
        end,
    })
}

fn skip_ws(t: &[u8], mut i: usize) -> usize {
    while i < t.len() && matches!(t[i], b' ' | b'\t' | b'\n' | b'\r') {
        i += 1;
    }
    i
}

fn scan_string(t: &[u8], mut i: usize) -> Option<usize> {
    // t[i] is the char after the opening quote; returns index of closing quote
    while i < t.len() {
        match t[i] {
            b'"' => return Some(i),
            b'\\' => i += 2,
            _ => i += 1,
        }
    }
    None
}

/// Raw key and value spans of the top-level object of an already validated JSON text.
fn raw_top_members(t: &[u8]) -> Option<(Vec<Vec<u8>>, Vec<Vec<u8>>)> {
    let mut keys = Vec::new();
    let mut vals = Vec::new();
    let mut i = skip_ws(t, 0);
    if t.get(i) != Some(&b'{') {
        return None;
    }
    i += 1;
    loop {
        i = skip_ws(t, i);
        match t.get(i)? {
            b'}' => return Some((keys, vals)),
            b',' => {
                i += 1;
                continue;
            }
            b'"' => {}
            _ => return None,
        }
        let end = scan_string(t, i + 1)?;
        keys.push(t[i + 1..end].to_vec());
        i = skip_ws(t, end + 1);
        if t.get(i) != Some(&b':') {
            return None;
        }
        i = skip_ws(t, i + 1);
        // skip a value
        let start = i;
        let mut depth = 0i32;
        loop {
            let c = *t.get(i)?;
            match c {
                b'"' => {
                    i = scan_string(t, i + 1)? + 1;
                    continue;
                }
                b'[' | b'{' => depth += 1,
                b']' | b'}' => {
                    if depth == 0 {
                        break;
                    }
                    depth -= 1;
                }
                b',' if depth == 0 => break,
                _ => {}
            }
            i += 1;
        }
        let mut e = i;
        while e > start && matches!(t[e - 1], b' ' | b'\t' | b'\n' | b'\r') {
            e -= 1;
        }
        vals.push(t[start..e].to_vec());
    }
}

/// True if the raw text contains a \u escape in the surrogate range (outside of `\\u`).
pub fn has_surrogate_escape(t: &[u8]) -> bool {
    let mut i = 0;
    while i + 1 < t.len() {
        if t[i] == b'\\' {
            if t[i + 1] == b'u' && i + 5 < t.len() {
                let d = t[i + 2].to_ascii_lowercase();
                let e = t[i + 3].to_ascii_lowercase();
                if d == b'd' && matches!(e, b'8' | b'9' | b'a' | b'b' | b'c' | b'd' | b'e' | b'f') {
                    return true;
                }
            }
            i += 2;
        } else {
            i += 1;
        }
    }
    false
}

pub fn is_plain_uint(raw: &[u8]) -> bool {
    !raw.is_empty() && raw.iter().all(|c| c.is_ascii_digit()) && (raw.len() == 1 || raw[0] != b'0')
}

/// Exact value of a plain unsigned integer text, if it fits u128.
pub fn uint_value(raw: &[u8]) -> Option<u128> {
    if !is_plain_uint(raw) || raw.len() > 38 {
        return None;
    }
    std::str::from_utf8(raw).ok()?.parse::<u128>().ok()
}

pub fn is_lower_hex(s: &str, len: usize) -> bool {
    s.len() == len && s.bytes().all(|c| c.is_ascii_digit() || (b'a'..=b'f').contains(&c))
}

pub fn is_any_hex(s: &str, len: usize) -> bool {
    s.len() == len && s.bytes().all(|c| c.is_ascii_hexdigit())
}

/// What the independent reader extracts from an event text.
#[derive(Debug, Clone)]
pub struct EventView {
    pub id: Option<Vec<u8>>,
    pub pubkey: Option<Vec<u8>>,
    pub sig: Option<Vec<u8>>,
    /// exact integer values when written as plain unsigned integers
    pub kind: Option<u128>,
    pub created_at: Option<u128>,
    pub tags: Option<Vec<Vec<String>>>,
    pub content: Option<String>,
    /// all seven members present exactly once with the right JSON types and hex shapes (any case)
    pub well_typed: bool,
    /// in the must-accept domain of C01 (see DESIGN.md section 4, C01)
    pub must_accept: bool,
    /// why not must_accept (for labels)
    pub why_not: &'static str,
    pub end: usize,
    pub has_unknown: bool,
    /// one of the seven members occurs more than once: the view reports the last occurrence, as the common parsers do
    pub dup_known: bool,
}

pub const EVENT_MEMBERS: [&str; 7] = ["id", "pubkey", "created_at", "kind", "tags", "content", "sig"];

pub fn event_view(text: &[u8]) -> Option<EventView> {
    let top = read_top_object(text)?;
    let mut v = EventView {
        id: None,
        pubkey: None,
        sig: None,
        kind: None,
        created_at: None,
        tags: None,
        content: None,
        well_typed: true,
        must_accept: true,
        why_not: "",
        end: top.end,
        has_unknown: top.members.iter().any(|(k, _)| !EVENT_MEMBERS.contains(&k.as_str())),
        dup_known: EVENT_MEMBERS.iter().any(|m| top.count(m) > 1),
    };
    let mut no = |v: &mut EventView, why: &'static str, typed: bool| {
        if v.must_accept {
            v.why_not = why;
        }
        v.must_accept = false;
        if !typed {
            v.well_typed = false;
        }
    };
    for name in EVENT_MEMBERS {
        if top.count(name) != 1 {
            no(&mut v, "member-count", false);
        } else if !top.key_is_literal(name) {
            no(&mut v, "escaped-known-name", true);
        }
    }
    // unknown duplicate names: outside the must-accept domain (kept in the agree-if-accepted domain)
    {
        let mut names: Vec<&String> = top.members.iter().map(|(k, _)| k).collect();
        names.sort();
        let before = names.len();
        names.dedup();
        if names.len() != before {
            no(&mut v, "duplicate-names", true);
        }
    }
    if has_surrogate_escape(&text[..top.end]) {
        no(&mut v, "surrogate-escape", true);
    }
    let hexfield = |name: &str, len: usize, v: &mut EventView| -> Option<Vec<u8>> {
        match top.get(name) {
            Some(Value::String(s)) if is_any_hex(s, len) => {
                if !is_lower_hex(s, len) {
                    if v.must_accept {
                        v.why_not = "upper-hex";
                    }
                    v.must_accept = false;
                }
                // raw must be literal hex (no escapes inside the hex string)
                if top.raw_value_of(name).map(|r| r.len() != len + 2).unwrap_or(true) {
                    if v.must_accept {
                        v.why_not = "escaped-hex";
                    }
                    v.must_accept = false;
                }
                crate::model::unhex(s)
            }
            _ => {
                if v.must_accept {
                    v.why_not = "hex-shape";
                }
                v.must_accept = false;
                v.well_typed = false;
                None
            }
        }
    };
    v.id = hexfield("id", 64, &mut v);
    v.pubkey = hexfield("pubkey", 64, &mut v);
    v.sig = hexfield("sig", 128, &mut v);
    for (name, max) in [("kind", 65535u128), ("created_at", u64::MAX as u128)] {
        let raw = top.raw_value_of(name).unwrap_or(b"");
        match (top.get(name), uint_value(raw)) {
            (Some(Value::Number(_)), Some(x)) => {
                if name == "kind" {
                    v.kind = Some(x);
                } else {
                    v.created_at = Some(x);
                }
                if x > max {
                    no(&mut v, "int-out-of-range", true);
                }
            }
            (Some(Value::Number(_)), None) => {
                // a number, but not a plain unsigned integer (fraction, exponent, sign, > u128)
                no(&mut v, "int-form", true);
            }
            _ => no(&mut v, "int-type", false),
        }
    }
    match top.get("content") {
        Some(Value::String(s)) => v.content = Some(s.clone()),
        _ => no(&mut v, "content-type", false),
    }
    match top.get("tags") {
        Some(Value::Array(a)) => {
            let mut tags = Vec::new();
            let mut ok = true;
            for t in a {
                match t {
                    Value::Array(ss) => {
                        let mut tag = Vec::new();
                        for s in ss {
                            match s {
                                Value::String(s) => tag.push(s.clone()),
                                _ => ok = false,
                            }
                        }
                        tags.push(tag);
                    }
                    _ => ok = false,
                }
            }
            if ok {
                if crate::model::tags_size(&tags) > 65535 {
                    no(&mut v, "tags-too-big", true);
                }
                v.tags = Some(tags);
            } else {
                no(&mut v, "tags-type", false);
            }
        }
        _ => no(&mut v, "tags-type", false),
    }
    Some(v)
}

/// What the independent reader extracts from a filter text.
#[derive(Debug, Clone)]
pub struct FilterView {
    pub ids: Vec<Vec<u8>>,
    pub authors: Vec<Vec<u8>>,
    pub kinds: Vec<u128>,
    pub tags: Vec<(String, Vec<String>)>,
    pub since: Option<u128>,
    pub until: Option<u128>,
    pub limit: Option<u128>,
    pub well_typed: bool,
    pub must_accept: bool,
    pub why_not: &'static str,
    /// an integer member is out of the representable range
    pub int_out_of_range: bool,
    pub end: usize,
    pub has_unknown: bool,
}

pub fn is_filter_tag_name(k: &str) -> bool {
    let b = k.as_bytes();
    b.len() == 2 && b[0] == b'#' && b[1].is_ascii_alphabetic()
}

pub fn filter_view(text: &[u8]) -> Option<FilterView> {
    let top = read_top_object(text)?;
    let mut v = FilterView {
        ids: vec![],
        authors: vec![],
        kinds: vec![],
        tags: vec![],
        since: None,
        until: None,
        limit: None,
        well_typed: true,
        must_accept: true,
        why_not: "",
        int_out_of_range: false,
        end: top.end,
        has_unknown: false,
    };
    let mut no = |v: &mut FilterView, why: &'static str, typed: bool| {
        if v.must_accept {
            v.why_not = why;
        }
        v.must_accept = false;
        if !typed {
            v.well_typed = false;
        }
    };
    {
        let mut names: Vec<&String> = top.members.iter().map(|(k, _)| k).collect();
        names.sort();
        let before = names.len();
        names.dedup();
        if names.len() != before {
            no(&mut v, "duplicate-names", false);
        }
    }
    if has_surrogate_escape(&text[..top.end]) {
        no(&mut v, "surrogate-escape", true);
    }
    for (i, (k, val)) in top.members.iter().enumerate() {
        let literal = top.raw_keys[i].as_slice() == k.as_bytes();
        let raw = top.raw_values[i].as_slice();
        let known = matches!(k.as_str(), "ids" | "authors" | "kinds" | "since" | "until" | "limit") || is_filter_tag_name(k);
        if !known {
            v.has_unknown = true;
            continue;
        }
        if !literal {
            no(&mut v, "escaped-known-name", true);
        }
        match k.as_str() {
            "ids" | "authors" => match val {
                Value::Array(a) => {
                    for x in a {
                        match x {
                            Value::String(s) if is_any_hex(s, 64) => {
                                if !is_lower_hex(s, 64) {
                                    no(&mut v, "upper-hex", true);
                                }
                                let b = crate::model::unhex(s).unwrap();
                                if k == "ids" {
                                    v.ids.push(b)
                                } else {
                                    v.authors.push(b)
                                }
                            }
                            _ => no(&mut v, "hex-shape", false),
                        }
                    }
                    if raw.contains(&b'\\') {
                        no(&mut v, "escaped-hex", true);
                    }
                    if a.len() > 65535 {
                        no(&mut v, "too-many", true);
                    }
                }
                _ => no(&mut v, "list-type", false),
            },
            "kinds" => match val {
                Value::Array(a) => {
                    // every element must be a plain uint; get raw element texts
                    let inner = &raw[1..raw.len().saturating_sub(1)];
                    let elems: Vec<&[u8]> = if a.is_empty() {
                        vec![]
                    } else {
                        inner.split(|c| *c == b',').collect()
                    };
                    if elems.len() != a.len() {
                        no(&mut v, "kinds-type", false);
                    } else {
                        for e in elems {
                            let e = trim_ws(e);
                            match uint_value(e) {
                                Some(x) => {
                                    if x > 65535 {
                                        no(&mut v, "kind-out-of-range", true);
                                        v.int_out_of_range = true;
                                    }
                                    v.kinds.push(x)
                                }
                                None => no(&mut v, "kinds-type", false),
                            }
                        }
                    }
                    if a.len() > 65535 {
                        no(&mut v, "too-many", true);
                    }
                }
                _ => no(&mut v, "list-type", false),
            },
            "since" | "until" | "limit" => {
                let max: u128 = if k == "limit" { u32::MAX as u128 } else { u64::MAX as u128 };
                match (val, uint_value(raw)) {
                    (Value::Number(_), Some(x)) => {
                        if x > max {
                            v.int_out_of_range = true;
                            no(&mut v, "int-out-of-range", true);
                        }
                        match k.as_str() {
                            "since" => v.since = Some(x),
                            "until" => v.until = Some(x),
                            _ => v.limit = Some(x),
                        }
                    }
                    (Value::Number(_), None) => no(&mut v, "int-form", true),
                    _ => no(&mut v, "int-type", false),
                }
            }
            _ => {
                // #x
                match val {
                    Value::Array(a) => {
                        let mut vals = Vec::new();
                        for x in a {
                            match x {
                                Value::String(s) => vals.push(s.clone()),
                                _ => no(&mut v, "tag-value-type", false),
                            }
                        }
                        v.tags.push((k[1..].to_string(), vals));
                    }
                    _ => no(&mut v, "list-type", false),
                }
            }
        }
    }
    Some(v)
}

fn trim_ws(mut b: &[u8]) -> &[u8] {
    while let Some((f, rest)) = b.split_first() {
        if matches!(f, b' ' | b'\t' | b'\n' | b'\r') {
            b = rest;
        } else {
            break;
        }
    }
    while let Some((l, rest)) = b.split_last() {
        if matches!(l, b' ' | b'\t' | b'\n' | b'\r') {
            b = rest;
        } else {
            break;
        }
    }
    b
}
