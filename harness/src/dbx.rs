//! Shared machinery for the store properties: operation histories, an interpreter over a real
//! `pocket_db::Store` in a scratch directory, snapshots of everything observable.

use crate::engine::*;
use crate::model::*;
use crate::sha256::sha256;
use pocket_db::{InnerError, ScreenResult, Store};
use pocket_types::{Addr, Id, Kind, OwnedEvent, Pubkey};
use proptest::prelude::*;
use serde::{Deserialize, Serialize};
use std::collections::{BTreeMap, BTreeSet};
use std::path::{Path, PathBuf};

// ------------------------------------------------------------------------------------------
// Pools

pub fn author(i: u8) -> String {
    // four fixed "public keys" (the store does not verify events). Two pairs collide in one half: key 3 shares its
    // first 16 bytes with key 0, key 2 its last 16 bytes with key 1 - a comparison or an index key that looks at
    // part of a key confuses them.
    let (hi, lo) = match i % 4 {
        0 => (0xA1u8, 0xA1u8),
        1 => (0xB2, 0xB2),
        2 => (0xC3, 0xB2),
        _ => (0xA1, 0xD4),
    };
    let mut k = [hi; 32];
    for b in k.iter_mut().skip(16) {
        *b = lo;
    }
    hex(&k)
}

pub fn p182() -> String {
    let mut s = String::new();
    while s.len() < 182 {
        s.push_str("p182-0123456789abcdef-");
    }
    s.truncate(182);
    s
}

pub fn d_pool() -> Vec<String> {
    let p = p182();
    vec![
        "".into(),
        "x".into(),
        "x\0".into(),
        "xy".into(),
        format!("{p}a"),
        format!("{p}b"),
        p.clone(),
        "z".repeat(183),
        "z".repeat(300),
        "y".repeat(600),
        "x\0\0".into(),
        "X".into(),
        "x:y".into(),
        "a:b:c".into(),
        ":".into(),
        format!("{}1", "w".repeat(480)),
        format!("{}2", "w".repeat(480)),
        // identifiers with white space at either end ("x" is in the pool too)
        "x ".into(),
        " x".into(),
        "x\n".into(),
        " ".into(),
        // identifiers that are, or contain, a pool author's key (lists / records about somebody)
        author(1),
        format!("about:{}", author(2)),
        author(0).to_uppercase(),
    ]
}

pub fn db_kind_pool() -> Vec<u16> {
    vec![1, 0, 3, 5, 7, 62, 1059, 9999, 10000, 10002, 19999, 20000, 20001, 29999, 30000, 30023, 39999, 40000]
}

pub fn time_pool() -> BoxedStrategy<u64> {
    prop_oneof![
        12 => 100u64..116,
        1 => Just(0u64),
        1 => Just(1u64 << 32),
        1 => Just(u64::MAX),
        1 => Just(u64::MAX - 1),
    ]
    .boxed()
}

#[derive(Clone, Debug, Serialize, Deserialize, PartialEq, Eq)]
pub enum IdChoice {
    Hash,
    Zeros,
    Ones,
}

/// An event as generated for store histories: the id is derived from the fields (so equal fields
/// mean the same event), except for the two extreme ids.
#[derive(Clone, Debug, Serialize, Deserialize)]
pub struct GenEvent {
    pub author: u8,
    pub kind: u16,
    pub created_at: u64,
    pub tags: Vec<Vec<String>>,
    pub content_len: u32,
    pub idc: IdChoice,
    /// this many extra ["p", ...] tags are put in FRONT of the generated tags (follow lists and the like)
    #[serde(default)]
    pub many: u16,
}

impl GenEvent {
    pub fn all_tags(&self) -> Vec<Vec<String>> {
        let mut t: Vec<Vec<String>> = (0..self.many).map(|i| vec!["p".to_string(), format!("follow-{i}")]).collect();
        t.extend(self.tags.iter().cloned());
        t
    }
}

impl GenEvent {
    pub fn to_model(&self) -> MEvent {
        let pubkey = author(self.author);
        let content: String = (0..self.content_len as usize).map(|i| (b'a' + (i % 26) as u8) as char).collect();
        let tags = self.all_tags();
        let canon = serde_json::to_string(&serde_json::json!([0, pubkey, self.created_at, self.kind, tags, content])).unwrap();
        let id = match self.idc {
            IdChoice::Hash => hex(&sha256(canon.as_bytes())),
            IdChoice::Zeros => "00".repeat(32),
            IdChoice::Ones => "ff".repeat(32),
        };
        MEvent {
            id,
            pubkey,
            sig: "5a".repeat(64),
            kind: self.kind,
            created_at: self.created_at,
            tags,
            content,
        }
    }
}

pub fn content_len_strategy() -> BoxedStrategy<u32> {
    prop_oneof![
        6 => 0u32..12,
        3 => 150u32..260,
        1 => 1850u32..1950,
        1 => 2040u32..2056,
        1 => Just(5000u32),
    ]
    .boxed()
}

pub fn tag_value_pool() -> Vec<String> {
    let mut v = d_pool();
    v.push(author(0));
    v.push(author(1));
    v.push(hex(&[0x11; 32]));
    v.push("nostr".into());
    v
}

pub fn db_tag() -> BoxedStrategy<Vec<String>> {
    db_tag_n(0, 0)
}

pub fn db_tag_n(n: usize, names: usize) -> BoxedStrategy<Vec<String>> {
    let name_pool: Vec<&'static str> = if names > 0 { vec!["e", "p", "t", "a", "d"].into_iter().take(names).collect() } else { vec!["e", "p", "t", "a", "d"] };
    let mut pool = tag_value_pool();
    if n > 0 {
        // "x", "x\0", "xy", ... : the colliding short values first
        pool = pool.into_iter().skip(1).take(n).collect();
    }
    let val = prop::sample::select(pool);
    prop_oneof![
        // single-letter tags with 1..3 strings after the name
        12 => (prop::sample::select(name_pool), prop::collection::vec(val.clone(), 1..3))
            .prop_map(|(n, mut v)| { v.insert(0, n.to_string()); v }),
        2 => (prop::sample::select(vec!["E", "1", "client", "dd", "", "delegation", "description", "da", "proxy", "e2", "K", "A", "-", "9"]), prop::collection::vec(val, 0..3))
            .prop_map(|(n, mut v)| { v.insert(0, n.to_string()); v }),
        1 => Just(Vec::<String>::new()),
        1 => prop::sample::select(vec!["e", "d", "t"]).prop_map(|n| vec![n.to_string()]),
        // NIP-40: long past, far future, garbage
        1 => prop::sample::select(vec!["1", "100", "99999999999", "18446744073709551615", "soon"]).prop_map(|v| vec!["expiration".to_string(), v.to_string()]),
    ]
    .boxed()
}

#[derive(Clone, Copy, Debug)]
pub struct EvCfg {
    pub authors: u8,
    /// probability weights: [regular, replaceable, parameterised, ephemeral, other pool]
    pub kind_weights: [u32; 5],
    pub max_tags: usize,
    pub extreme_ids: bool,
    /// 0 = the full tag value pool; otherwise only the first n values (so that events share tags)
    pub tag_values: usize,
    /// 0 = all tag names; otherwise only the first n of e, p, t, a, d
    pub tag_names: usize,
    /// few kinds per class and few d values, so that several events share (author, kind) and d values
    pub narrow: bool,
}

impl Default for EvCfg {
    fn default() -> Self {
        EvCfg {
            authors: 4,
            kind_weights: [4, 2, 3, 1, 2],
            max_tags: 4,
            extreme_ids: true,
            tag_values: 0,
            tag_names: 0,
            narrow: false,
        }
    }
}

pub fn gen_event(cfg: EvCfg) -> BoxedStrategy<GenEvent> {
    let w = cfg.kind_weights;
    let kind = if cfg.narrow {
        prop_oneof![
            w[0] => prop::sample::select(vec![1u16, 1, 7]),
            w[1] => prop::sample::select(vec![0u16, 10002]),
            w[2] => prop::sample::select(vec![30023u16, 30023, 30000]),
            w[3] => prop::sample::select(vec![20001u16]),
            w[4] => prop::sample::select(db_kind_pool()),
        ]
        .boxed()
    } else {
        prop_oneof![
            w[0] => prop::sample::select(vec![1u16, 1, 1, 7, 7, 1059, 9999, 40000, 62]),
            w[1] => prop::sample::select(vec![0u16, 3, 10000, 10002, 19999]),
            w[2] => prop::sample::select(vec![30000u16, 30023, 39999]),
            w[3] => prop::sample::select(vec![20000u16, 20001, 29999]),
            w[4] => prop::sample::select(db_kind_pool()),
        ]
        .boxed()
    };
    let narrow = cfg.narrow;
    let idc = if cfg.extreme_ids {
        prop_oneof![30 => Just(IdChoice::Hash), 1 => Just(IdChoice::Zeros), 1 => Just(IdChoice::Ones)].boxed()
    } else {
        Just(IdChoice::Hash).boxed()
    };
    (
        0u8..cfg.authors,
        kind,
        time_pool(),
        prop::collection::vec(db_tag_n(cfg.tag_values, cfg.tag_names), 0..=cfg.max_tags),
        prop::option::weighted(0.92, prop_oneof![
            (if narrow { 0 } else { 3 }) => prop::sample::select(d_pool()),
            // values that the 182-byte zero-padded index key cannot tell apart
            2 => prop::sample::select(vec!["x".to_string(), "x\0".to_string(), "x\0\0".to_string(), "".to_string(), "\0".to_string()]),
            2 => prop::sample::select(vec![p182(), format!("{}a", p182()), format!("{}b", p182()), format!("{}\0", p182())]),
        ]),
        content_len_strategy(),
        idc,
        prop_oneof![60 => Just(0u16), 1 => 250u16..400],
        prop_oneof![2 => Just(0u8), 1 => any::<u8>()],
    )
        .prop_map(|(author, kind, created_at, mut tags, d, content_len, idc, many, dpos)| {
            // parameterised kinds normally carry a d tag from the colliding pool: mostly the first of the generated
            // tags (i.e. after a possible long run of p tags), sometimes behind other tags
            if (30000..40000).contains(&kind) {
                if let Some(d) = d {
                    let at = dpos as usize % (tags.len() + 1);
                    tags.insert(at, vec!["d".to_string(), d]);
                }
            }
            GenEvent {
                author,
                kind,
                created_at,
                tags,
                content_len,
                idc,
                many,
            }
        })
        .boxed()
}

#[derive(Clone, Debug, Serialize, Deserialize)]
pub enum DelTarget {
    /// the i-th earlier event (by id), whoever wrote it
    E(u16),
    /// an id that was never submitted
    EAbsent(u8),
    EMalformed(String),
    /// the address of the i-th earlier event (if it has one)
    AOf(u16),
    /// explicit address
    A { kind: u16, author: u8, d: String },
    AMalformed(String),
    Other(Vec<String>),
    /// the i-th earlier event written by the requester itself (an absent id if there is none)
    EOwn(u16),
    /// the i-th earlier event written by somebody else (skipped if there is none)
    EForeign(u16),
    /// NIP-09 `k` tag: the kind of the i-th earlier event (None: a fixed kind or garbage, by the second field)
    K(Option<u16>, u8),
    /// a tag that is NOT a deletion target although it carries the id (or the address) of the i-th earlier event
    /// written by the requester (any event if there is none): upper-case E / A (NIP-22 root references), q, P, ...
    Decoy { name: u8, of: u16, by_addr: bool },
    /// somebody else's event that mentions the requester's key in one of its tags (a gift wrap addressed to the
    /// requester, a reply, a list entry): still somebody else's
    EAboutMe(u16),
    /// an `a` tag spelled from the kind, author and first d value of the i-th earlier event of the requester,
    /// whatever its kind (a regular or ephemeral kind has no address: the tag names nothing)
    AOfAny(u16),
    /// an `e` tag with further elements after the id: relay hint, marker, and (NIP-10) a pubkey - the requester's
    /// own or the target author's
    ELong { of: u16, foreign: bool, claim_own: bool },
}

#[derive(Clone, Debug, Serialize, Deserialize)]
pub enum Op {
    Store(GenEvent),
    /// submit the i-th earlier event again, byte-identical
    Resubmit(u16),
    /// an event at the same address as the i-th earlier event, with the given time and content length
    Version { of: u16, created_at: u64, content_len: u32 },
    /// an event like the i-th earlier one but at a neighbouring address: its first d value is
    /// changed in the tail (NUL appended / stripped, last byte flipped, cut to or grown beyond 182 bytes)
    Neighbour { of: u16, how: u8, created_at: u64 },
    Remove(u16),
    RemoveAbsent(u8),
    DeleteReq { author: u8, created_at: u64, targets: Vec<DelTarget> },
    /// deletion request written by the author of the i-th earlier event, naming it
    DeleteOwn { of: u16, by_addr: bool, dt: i8 },
    Vanish(u8),
    Reopen,
    Rebuild,
    ExtraPut { table: u8, key: Vec<u8>, val: Vec<u8> },
    ExtraDel { table: u8, key: Vec<u8> },
    /// store a regular event sized so that the used part of the event map ends `slack` bytes (0, 8, 16, ...)
    /// before the end of the backing file (slack 0 = the map is exactly full)
    FillTo { slack: u8, author: u8 },
    /// a regular event with `kb` KiB of content (release profile: crosses the 4 MiB chunks of the event map)
    Big { kb: u16, author: u8 },
    /// `n` deletion requests by one author, each naming `each` ids the store has never seen
    /// (bulk moderation: tens of thousands of deletion markers)
    MassDelete { author: u8, n: u8, each: u16 },
    /// fault injection: apply the inner operation while every LMDB reader slot is taken
    /// (as under many concurrent queries), so that lookups inside it fail with MDB_READERS_FULL
    Pressure(Box<Op>),
}

#[derive(Clone, Copy, Debug)]
pub struct OpWeights {
    pub store: u32,
    pub resubmit: u32,
    pub version: u32,
    pub remove: u32,
    pub delete_req: u32,
    pub delete_own: u32,
    pub vanish: u32,
    pub reopen: u32,
    pub rebuild: u32,
    pub extra: u32,
    pub pressure: u32,
    /// weight of MassDelete (tens of thousands of deletion markers); scaled by 1/16
    pub mass_delete: u32,
    /// weight of Big (hundreds of KiB of content; only generated in the release profile)
    pub big: u32,
}

impl Default for OpWeights {
    fn default() -> Self {
        OpWeights {
            store: 10,
            resubmit: 2,
            version: 4,
            remove: 2,
            delete_req: 2,
            delete_own: 2,
            vanish: 1,
            reopen: 1,
            rebuild: 0,
            extra: 0,
            pressure: 0,
            mass_delete: 0,
            big: 0,
        }
    }
}

pub fn del_target() -> BoxedStrategy<DelTarget> {
    prop_oneof![
        6 => any::<u16>().prop_map(DelTarget::E),
        1 => any::<u8>().prop_map(DelTarget::EAbsent),
        1 => prop::sample::select(vec!["", "zz", "0011", "not-hex-not-hex-not-hex-not-hex-not-hex-not-hex-not-hex-not-hex-"]).prop_map(|s| DelTarget::EMalformed(s.to_string())),
        5 => any::<u16>().prop_map(DelTarget::AOf),
        2 => (prop::sample::select(vec![0u16, 3, 10002, 30023, 30000, 39999, 1]), 0u8..4, prop::sample::select(d_pool()))
            .prop_map(|(kind, author, d)| DelTarget::A { kind, author, d }),
        1 => prop::sample::select(vec!["", "30023", "30023:zz:x", "x:y:z", "30023:", "99999:a:b", ":::"]).prop_map(|s| DelTarget::AMalformed(s.to_string())),
        1 => Just(DelTarget::Other(vec!["p".into(), "x".into()])),
        1 => Just(DelTarget::Other(vec![])),
        1 => Just(DelTarget::Other(vec!["e".into()])),
        2 => (prop::option::weighted(0.6, any::<u16>()), any::<u8>()).prop_map(|(i, x)| DelTarget::K(i, x)),
        3 => (any::<u8>(), any::<u16>(), any::<bool>()).prop_map(|(name, of, by_addr)| DelTarget::Decoy { name, of, by_addr }),
        2 => (any::<u16>(), any::<bool>(), any::<bool>()).prop_map(|(of, foreign, claim_own)| DelTarget::ELong { of, foreign, claim_own }),
        3 => any::<u16>().prop_map(DelTarget::AOfAny),
        3 => any::<u16>().prop_map(DelTarget::EAboutMe),
    ]
    .boxed()
}

pub fn op_strategy(w: OpWeights, cfg: EvCfg) -> BoxedStrategy<Op> {
    let mut v: Vec<(u32, BoxedStrategy<Op>)> = Vec::new();
    v.push((w.store, gen_event(cfg).prop_map(Op::Store).boxed()));
    v.push((w.resubmit, any::<u16>().prop_map(Op::Resubmit).boxed()));
    v.push((
        w.version,
        (any::<u16>(), time_pool(), content_len_strategy())
            .prop_map(|(of, created_at, content_len)| Op::Version { of, created_at, content_len })
            .boxed(),
    ));
    v.push((
        (w.version + 1) / 2,
        (any::<u16>(), any::<u8>(), time_pool()).prop_map(|(of, how, created_at)| Op::Neighbour { of, how, created_at }).boxed(),
    ));
    v.push((
        w.remove,
        prop_oneof![5 => any::<u16>().prop_map(Op::Remove), 1 => any::<u8>().prop_map(Op::RemoveAbsent)].boxed(),
    ));
    v.push((
        w.delete_req,
        (
            0u8..cfg.authors,
            time_pool(),
            prop_oneof![
                30 => prop::collection::vec(del_target(), 1..5),
                // a kind declaration next to somebody else's event (of that or another kind) and one of the requester's own
                3 => (prop::option::weighted(0.5, any::<u16>()), any::<u8>(), any::<u16>(), any::<u16>(), 0u8..3)
                    .prop_map(|(ki, kx, f, o, shape)| match shape {
                        0 => vec![DelTarget::K(ki, kx), DelTarget::EForeign(f)],
                        1 => vec![DelTarget::EOwn(o), DelTarget::K(ki, kx), DelTarget::EForeign(f)],
                        _ => vec![DelTarget::EForeign(f), DelTarget::K(ki, kx)],
                    }),
                // long requests (a relay accepts what fits its message size): 60..100 targets
                1 => prop::collection::vec(del_target(), 60..100),
                // long requests whose first 60..100 targets are harmless for the requester (own events, absent ids)
                // and whose last one names somebody else's stored event
                2 => (prop::collection::vec(prop_oneof![3 => any::<u16>().prop_map(DelTarget::EOwn), 1 => any::<u8>().prop_map(DelTarget::EAbsent)], 60..100), any::<u16>())
                    .prop_map(|(mut v, f)| { v.push(DelTarget::EForeign(f)); v }),
                1 => (prop::collection::vec(prop_oneof![3 => any::<u16>().prop_map(DelTarget::EOwn), 1 => any::<u8>().prop_map(DelTarget::EAbsent)], 250..330), any::<u16>())
                    .prop_map(|(mut v, f)| { v.push(DelTarget::EForeign(f)); v }),
            ],
        )
            .prop_map(|(author, created_at, targets)| Op::DeleteReq { author, created_at, targets })
            .boxed(),
    ));
    v.push((
        w.delete_own,
        (any::<u16>(), any::<bool>(), -3i8..4).prop_map(|(of, by_addr, dt)| Op::DeleteOwn { of, by_addr, dt }).boxed(),
    ));
    v.push((w.vanish, (0u8..cfg.authors).prop_map(Op::Vanish).boxed()));
    v.push((w.reopen, Just(Op::Reopen).boxed()));
    v.push((w.rebuild, Just(Op::Rebuild).boxed()));
    v.push((
        w.extra,
        prop_oneof![
            3 => (0u8..3, prop::collection::vec(any::<u8>(), 1..6), prop::collection::vec(any::<u8>(), 0..10)).prop_map(|(table, key, val)| Op::ExtraPut { table, key, val }),
            1 => (0u8..3, prop::collection::vec(any::<u8>(), 1..3)).prop_map(|(table, key)| Op::ExtraDel { table, key }),
        ]
        .boxed(),
    ));
    // very large events only where the event map grows in 4 MiB steps (release profile)
    if !cfg!(debug_assertions) && w.big > 0 {
        v.push((w.big, (prop_oneof![80 => prop::sample::select(vec![300u16, 700, 1500, 2500, 4100]), 1 => prop::sample::select(vec![8_300u16, 16_400, 17_000, 33_000])], 0u8..cfg.authors).prop_map(|(kb, author)| Op::Big { kb, author }).boxed()));
    }
    // boundary-directed sizes: fill the event map exactly, or leave one or two alignment units
    v.push(((w.store + 5) / 6, (prop::sample::select(vec![0u8, 0, 8, 16, 24]), 0u8..cfg.authors).prop_map(|(slack, author)| Op::FillTo { slack, author }).boxed()));
    if w.pressure > 0 {
        let inner = prop_oneof![
            2 => gen_event(cfg).prop_map(Op::Store),
            1 => any::<u16>().prop_map(Op::Resubmit),
            2 => (any::<u16>(), time_pool(), content_len_strategy()).prop_map(|(of, created_at, content_len)| Op::Version { of, created_at, content_len }),
            4 => (0u8..cfg.authors, time_pool(), prop::collection::vec(del_target(), 1..4)).prop_map(|(author, created_at, targets)| Op::DeleteReq { author, created_at, targets }),
            2 => (any::<u16>(), any::<bool>(), -3i8..4).prop_map(|(of, by_addr, dt)| Op::DeleteOwn { of, by_addr, dt }),
        ];
        v.push((w.pressure, inner.prop_map(|o| Op::Pressure(Box::new(o))).boxed()));
    }
    let v: Vec<(u32, BoxedStrategy<Op>)> = v.into_iter().filter(|(w, _)| *w > 0).collect();
    let main = proptest::strategy::Union::new_weighted(v).boxed();
    if w.mass_delete > 0 {
        let md = (0u8..cfg.authors, prop::sample::select(vec![(21u8, 500u16), (14, 800), (26, 400)])).prop_map(|(author, (n, each))| Op::MassDelete { author, n, each });
        prop_oneof![(600 / w.mass_delete.max(1)) => main, 1 => md].boxed()
    } else {
        main
    }
}

pub fn history(w: OpWeights, cfg: EvCfg, max_ops: usize) -> BoxedStrategy<Vec<Op>> {
    prop::collection::vec(op_strategy(w, cfg), 0..=max_ops).boxed()
}

// ------------------------------------------------------------------------------------------
// Result classes

#[derive(Clone, Debug, PartialEq, Eq, Serialize, Deserialize)]
pub enum Res {
    Ok(u64),
    Duplicate,
    Deleted,
    Replaced,
    InvalidDelete,
    Scraper,
    Other(String),
    Panic(String),
    /// the operation was not applicable (e.g. an index into an empty list)
    Skipped,
}

impl Res {
    pub fn class(&self) -> &'static str {
        match self {
            Res::Ok(_) => "ok",
            Res::Duplicate => "duplicate",
            Res::Deleted => "deleted",
            Res::Replaced => "replaced",
            Res::InvalidDelete => "invalid-delete",
            Res::Scraper => "scraper",
            Res::Other(_) => "other-error",
            Res::Panic(_) => "panic",
            Res::Skipped => "skipped",
        }
    }
    pub fn is_ok(&self) -> bool {
        matches!(self, Res::Ok(_))
    }
    pub fn is_err(&self) -> bool {
        !matches!(self, Res::Ok(_) | Res::Skipped)
    }
}

pub fn classify_err(e: &pocket_db::Error) -> Res {
    match &e.inner {
        InnerError::Duplicate => Res::Duplicate,
        InnerError::Deleted => Res::Deleted,
        InnerError::Replaced => Res::Replaced,
        InnerError::InvalidDelete => Res::InvalidDelete,
        InnerError::Scraper => Res::Scraper,
        other => Res::Other(crate::props::c01::err_class(other)),
    }
}

// ------------------------------------------------------------------------------------------
// World: a real store in a scratch directory plus the bookkeeping of what was submitted

pub fn scratch_base() -> PathBuf {
    let base = if Path::new("/dev/shm").is_dir() { PathBuf::from("/dev/shm") } else { std::env::temp_dir() };
    let p = base.join(format!("pv-{}", std::process::id()));
    let _ = std::fs::create_dir_all(&p);
    p
}

pub fn scratch_base_disk() -> PathBuf {
    let p = crate::engine::root().join("out").join("scratch").join(format!("pv-{}", std::process::id()));
    let _ = std::fs::create_dir_all(&p);
    p
}

/// Removes this process's scratch directories (called when a run ends normally).
pub fn remove_scratch() {
    let base = if Path::new("/dev/shm").is_dir() { PathBuf::from("/dev/shm") } else { std::env::temp_dir() };
    let _ = std::fs::remove_dir_all(base.join(format!("pv-{}", std::process::id())));
    let _ = std::fs::remove_dir_all(crate::engine::root().join("out").join("scratch").join(format!("pv-{}", std::process::id())));
    // and what processes that no longer exist (killed children, crashed runs) left behind
    for dir in [base, crate::engine::root().join("out").join("scratch")] {
        if let Ok(rd) = std::fs::read_dir(&dir) {
            for e in rd.flatten() {
                let name = e.file_name().to_string_lossy().to_string();
                if let Some(pid) = name.strip_prefix("pv-").and_then(|p| p.parse::<u32>().ok()) {
                    if !Path::new(&format!("/proc/{pid}")).exists() {
                        let _ = std::fs::remove_dir_all(e.path());
                    }
                }
            }
        }
    }
}

pub const EXTRA_TABLES: [&str; 3] = ["xa", "xb", "xc"];

/// Really closes a store: heed keeps every opened LMDB environment alive in a process-global
/// registry (keyed by path) until `prepare_for_closing` is called, so dropping the `Store` alone
/// neither releases the 24 GB mapping nor lets a later `Store::new` on the same directory read
/// the files afresh. We obtain the cached environment handle by "opening" the path again (with
/// any options: a mismatch error carries the handle too) and ask heed to close it.
pub fn close_store(store: Store) {
    use pocket_db::heed::{EnvFlags, EnvOpenOptions};
    let lmdb_path = store.dir().join("lmdb");
    let n_extra = 3u32;
    let mut b = EnvOpenOptions::new();
    unsafe {
        let _ = b.flags(EnvFlags::NO_TLS | EnvFlags::NO_SYNC | EnvFlags::NO_META_SYNC);
    }
    let _ = b.max_dbs(10 + n_extra).map_size(1048576 * 1024 * 24);
    let env = match unsafe { b.open(&lmdb_path) } {
        Ok(env) => Some(env),
        Err(pocket_db::heed::Error::BadOpenOptions { env, .. }) => Some(env),
        Err(_) => None,
    };
    match env {
        Some(env) => {
            let ev = env.prepare_for_closing();
            drop(store);
            let _ = ev.wait_timeout(std::time::Duration::from_secs(20));
        }
        None => drop(store),
    }
}

/// What an op did, as seen by the interpreter.
#[derive(Clone, Debug)]
pub struct Step {
    pub kind: StepKind,
    pub res: Res,
}

#[derive(Clone, Debug)]
pub enum StepKind {
    /// index into `World::events`
    Store(usize),
    Remove(String),
    Vanish(String),
    Reopen,
    Rebuild,
    Extra,
    Nop,
}

pub struct Dir {
    pub tmp: Option<tempfile::TempDir>,
    pub p: PathBuf,
}

impl Dir {
    pub fn path(&self) -> &Path {
        &self.p
    }
}

pub struct World {
    pub dir: Dir,
    pub store: Option<Store>,
    pub n_extra: usize,
    /// distinct events ever submitted (by id)
    pub events: Vec<MEvent>,
    pub owned: Vec<OwnedEvent>,
    pub by_id: BTreeMap<String, usize>,
    /// offset -> (event index, bytes) for successful stores into the current file
    pub offsets: BTreeMap<u64, usize>,
    /// model of the extra tables
    pub extra: BTreeMap<(u8, Vec<u8>), Vec<u8>>,
    pub absent_ids: Vec<String>,
    pub rebuilds: usize,
    pub grew: bool,
    pub growths: usize,
    pub reopens: usize,
    /// set when a successful store returned an offset that an earlier store into the same file returned
    pub offset_reused: Option<u64>,
}

pub fn extra_names(n: usize) -> Vec<&'static str> {
    EXTRA_TABLES[..n.min(3)].to_vec()
}

impl World {
    pub fn new(n_extra: usize) -> Result<World, Fail> {
        World::new_on(n_extra, false)
    }

    /// `disk`: the directory lives on the file system that holds the verification root (ext4 here) instead of
    /// tmpfs: a block file system treats the part of a file's last page that lies beyond end-of-file differently.
    pub fn new_on(n_extra: usize, disk: bool) -> Result<World, Fail> {
        let base = if disk { scratch_base_disk() } else { scratch_base() };
        let tmp = tempfile::Builder::new().prefix("w").tempdir_in(base).map_err(|e| Fail::new("harness:tempdir", e.to_string()))?;
        let p = tmp.path().to_path_buf();
        World::at(Dir { tmp: Some(tmp), p }, n_extra)
    }

    /// Opens (or creates) a store in the given directory.
    pub fn at(dir: Dir, n_extra: usize) -> Result<World, Fail> {
        let store = guard("Store::new", || Store::new(dir.path(), extra_names(n_extra)))?.map_err(|e| Fail::new(format!("open-failed:{}", crate::props::c01::err_class(&e)), e.to_string()))?;
        Ok(World {
            dir,
            store: Some(store),
            n_extra,
            events: Vec::new(),
            owned: Vec::new(),
            by_id: BTreeMap::new(),
            offsets: BTreeMap::new(),
            extra: BTreeMap::new(),
            absent_ids: (0..4u8).map(|i| hex(&[0xE0 + i; 32])).collect(),
            rebuilds: 0,
            grew: false,
            growths: 0,
            reopens: 0,
            offset_reused: None,
        })
    }

    pub fn st(&self) -> &Store {
        self.store.as_ref().expect("store open")
    }

    pub fn map_len(&self) -> u64 {
        std::fs::metadata(self.dir.path().join("event.map")).map(|m| m.len()).unwrap_or(0)
    }

    /// Registers the model event (if new) and returns its index.
    pub fn intern(&mut self, mut m: MEvent, ge: Option<&GenEvent>) -> usize {
        if let Some(i) = self.by_id.get(&m.id) {
            if self.events[*i] == m {
                return *i;
            }
            // an extreme id already used by a different event: fall back to the hash id
            if let Some(ge) = ge {
                let mut g2 = ge.clone();
                g2.idc = IdChoice::Hash;
                m = g2.to_model();
                if let Some(i) = self.by_id.get(&m.id) {
                    return *i;
                }
            }
        }
        let owned = m.to_owned_event().expect("model event is constructible");
        let i = self.events.len();
        let _ = self.by_id.insert(m.id.clone(), i);
        self.events.push(m);
        self.owned.push(owned);
        i
    }

    pub fn store_idx(&mut self, i: usize) -> Res {
        let before = self.map_len();
        let r = {
            let st = self.store.as_ref().expect("store open");
            let ev = &self.owned[i];
            guard("Store::store_event", || st.store_event(ev))
        };
        let res = match r {
            Ok(Ok(off)) => Res::Ok(off),
            Ok(Err(e)) => classify_err(&e),
            Err(f) => Res::Panic(f.key),
        };
        if let Res::Ok(off) = res {
            if self.offsets.insert(off, i).is_some() {
                self.offset_reused = Some(off);
            }
        }
        if self.map_len() > before {
            self.grew = true;
            self.growths += 1;
        }
        res
    }

    pub fn remove_id(&mut self, id: &str) -> Res {
        let st = self.st();
        match guard("Store::remove_event", || st.remove_event(Id::from_bytes(arr32(id)))) {
            Ok(Ok(())) => Res::Ok(0),
            Ok(Err(e)) => classify_err(&e),
            Err(f) => Res::Panic(f.key),
        }
    }

    pub fn vanish(&mut self, author_hex: &str) -> Res {
        // vanish() only reads the pubkey of the event it is given
        let m = MEvent {
            id: hex(&[0x62; 32]),
            pubkey: author_hex.to_string(),
            sig: "00".repeat(64),
            kind: 62,
            created_at: 1,
            tags: vec![],
            content: String::new(),
        };
        // if the key has submitted a request to vanish (kind 62) earlier in the history, that very event is handed
        // over (a relay stores the request and then acts on it); otherwise a request that was never stored
        let stored_req = self.events.iter().rposition(|e| e.kind == 62 && e.pubkey == author_hex);
        let ev = match stored_req {
            Some(i) => self.owned[i].clone(),
            None => m.to_owned_event().unwrap(),
        };
        let st = self.st();
        match guard("Store::vanish", || st.vanish(&ev)) {
            Ok(Ok(())) => Res::Ok(0),
            Ok(Err(e)) => classify_err(&e),
            Err(f) => Res::Panic(f.key),
        }
    }

    pub fn reopen(&mut self) -> Res {
        if let Some(old) = self.store.take() {
            close_store(old);
        }
        let path = self.dir.path().to_path_buf();
        let n = self.n_extra;
        match guard("Store::new", || Store::new(&path, extra_names(n))) {
            Ok(Ok(s)) => {
                self.store = Some(s);
                self.reopens += 1;
                Res::Ok(0)
            }
            Ok(Err(e)) => classify_err(&e),
            Err(f) => Res::Panic(f.key),
        }
    }

    pub fn rebuild(&mut self) -> Res {
        let old = self.store.take().expect("store open");
        let r = guard("Store::rebuild", || unsafe { old.rebuild() });
        match r {
            Ok(Ok(s)) => {
                self.store = Some(s);
                self.offsets.clear();
                self.rebuilds += 1;
                Res::Ok(0)
            }
            Ok(Err(e)) => {
                let res = classify_err(&e);
                // the store object is gone; try to get one back so that the history can go on
                let _ = self.reopen();
                res
            }
            Err(f) => {
                let _ = self.reopen();
                Res::Panic(f.key)
            }
        }
    }

    pub fn extra_put(&mut self, table: u8, key: &[u8], val: Option<&[u8]>) -> Res {
        if self.n_extra == 0 {
            return Res::Skipped;
        }
        let t = (table as usize) % self.n_extra;
        let st = self.st();
        let r = guard("extra table", || -> Result<(), pocket_db::Error> {
            let db = st.extra_table(EXTRA_TABLES[t]).expect("extra table exists");
            let mut txn = st.write_txn()?;
            match val {
                Some(v) => db.put(&mut txn, key, v)?,
                None => {
                    let _ = db.delete(&mut txn, key)?;
                }
            }
            txn.commit()?;
            Ok(())
        });
        match r {
            Ok(Ok(())) => {
                match val {
                    Some(v) => {
                        let _ = self.extra.insert((t as u8, key.to_vec()), v.to_vec());
                    }
                    None => {
                        let _ = self.extra.remove(&(t as u8, key.to_vec()));
                    }
                }
                Res::Ok(0)
            }
            Ok(Err(e)) => classify_err(&e),
            Err(f) => Res::Panic(f.key),
        }
    }

    /// The address (kind, author, d) of a model event, if it has one.
    pub fn address_of(m: &MEvent) -> Option<(u16, String, String)> {
        if kind_is_replaceable(m.kind) {
            Some((m.kind, m.pubkey.clone(), String::new()))
        } else if kind_is_param_replaceable(m.kind) {
            m.d_value().map(|d| (m.kind, m.pubkey.clone(), d.to_string()))
        } else {
            None
        }
    }

    fn resolve_targets(&self, author_i: u8, targets: &[DelTarget]) -> Vec<Vec<String>> {
        let n = self.events.len();
        let mut tags = Vec::new();
        for t in targets {
            match t {
                DelTarget::E(i) => {
                    if n > 0 {
                        tags.push(vec!["e".to_string(), self.events[idx16(*i, n)].id.clone()]);
                    }
                }
                DelTarget::EAbsent(i) => tags.push(vec!["e".to_string(), self.absent_ids[(*i as usize) % self.absent_ids.len()].clone()]),
                DelTarget::EMalformed(s) => tags.push(vec!["e".to_string(), s.clone()]),
                DelTarget::AOf(i) => {
                    if n > 0 {
                        if let Some((k, a, d)) = World::address_of(&self.events[idx16(*i, n)]) {
                            tags.push(vec!["a".to_string(), format!("{k}:{a}:{d}")]);
                        }
                    }
                }
                DelTarget::A { kind, author: a, d } => {
                    // non-parameterised replaceable addresses have an empty d
                    let d = if kind_is_replaceable(*kind) { String::new() } else { d.clone() };
                    tags.push(vec!["a".to_string(), format!("{}:{}:{}", kind, author(*a), d)])
                }
                DelTarget::AMalformed(s) => tags.push(vec!["a".to_string(), s.clone()]),
                DelTarget::Other(v) => tags.push(v.clone()),
                DelTarget::K(i, x) => {
                    let v = match i {
                        Some(i) if n > 0 => self.events[idx16(*i, n)].kind.to_string(),
                        _ => ["1", "30023", "5", "62", "0", "x", "", "65536", "1059"][*x as usize % 9].to_string(),
                    };
                    // in front of or behind the targets named so far
                    if x & 0x80 != 0 {
                        tags.insert(0, vec!["k".to_string(), v]);
                    } else {
                        tags.push(vec!["k".to_string(), v]);
                    }
                }
                DelTarget::Decoy { name, of, by_addr } => {
                    if n > 0 {
                        let me = author(author_i);
                        let own: Vec<&MEvent> = self.events.iter().filter(|e| e.pubkey == me).collect();
                        let target = if own.is_empty() { &self.events[idx16(*of, n)] } else { own[idx16(*of, own.len())] };
                        let names = ["E", "A", "q", "P", "Q", "i", "r", "ee", "E ", "aa"];
                        let name = names[*name as usize % names.len()].to_string();
                        match (by_addr, World::address_of(target)) {
                            (true, Some((k, a, d))) => tags.push(vec![name, format!("{k}:{a}:{d}")]),
                            _ => tags.push(vec![name, target.id.clone()]),
                        }
                    }
                }
                DelTarget::EAboutMe(i) => {
                    let me = author(author_i);
                    let cands: Vec<&MEvent> = self.events.iter().filter(|e| e.pubkey != me && e.tags.iter().flatten().any(|s| s.to_lowercase().contains(&me))).collect();
                    if !cands.is_empty() {
                        tags.push(vec!["e".to_string(), cands[idx16(*i, cands.len())].id.clone()]);
                    }
                }
                DelTarget::AOfAny(i) => {
                    let me = author(author_i);
                    let own: Vec<&MEvent> = self.events.iter().filter(|e| e.pubkey == me).collect();
                    if !own.is_empty() {
                        let t = own[idx16(*i, own.len())];
                        let d = t.tags.iter().find(|x| x.len() >= 2 && x[0] == "d").map(|x| x[1].clone()).unwrap_or_default();
                        tags.push(vec!["a".to_string(), format!("{}:{}:{}", t.kind, t.pubkey, d)]);
                    }
                }
                DelTarget::ELong { of, foreign, claim_own } => {
                    let me = author(author_i);
                    let cands: Vec<&MEvent> = self.events.iter().filter(|e| (e.pubkey == me) != *foreign).collect();
                    if !cands.is_empty() {
                        let t = cands[idx16(*of, cands.len())];
                        let claimed = if *claim_own { me.clone() } else { t.pubkey.clone() };
                        tags.push(vec!["e".to_string(), t.id.clone(), "wss://relay.example".to_string(), "reply".to_string(), claimed]);
                    }
                }
                DelTarget::EOwn(i) | DelTarget::EForeign(i) => {
                    let me = author(author_i);
                    let own = matches!(t, DelTarget::EOwn(_));
                    let cands: Vec<&MEvent> = self.events.iter().filter(|e| (e.pubkey == me) == own).collect();
                    if !cands.is_empty() {
                        tags.push(vec!["e".to_string(), cands[idx16(*i, cands.len())].id.clone()]);
                    } else if own {
                        tags.push(vec!["e".to_string(), self.absent_ids[(*i as usize) % self.absent_ids.len()].clone()]);
                    }
                }
            }
        }
        tags
    }

    /// Turns an op into the concrete thing to do (None = not applicable in this state).
    pub fn concretise(&mut self, op: &Op) -> Option<Concrete> {
        let n = self.events.len();
        match op {
            Op::Store(ge) => {
                let i = self.intern(ge.to_model(), Some(ge));
                Some(Concrete::Store(i))
            }
            Op::Resubmit(i) => {
                if n == 0 {
                    None
                } else {
                    Some(Concrete::Store(idx16(*i, n)))
                }
            }
            Op::Version { of, created_at, content_len } => {
                if n == 0 {
                    return None;
                }
                let base = self.events[idx16(*of, n)].clone();
                let content: String = (0..*content_len as usize).map(|i| (b'A' + (i % 26) as u8) as char).collect();
                let canon = serde_json::to_string(&serde_json::json!([0, base.pubkey, created_at, base.kind, base.tags, content])).unwrap();
                let m = MEvent {
                    id: hex(&sha256(canon.as_bytes())),
                    created_at: *created_at,
                    content,
                    ..base
                };
                let i = self.intern(m, None);
                Some(Concrete::Store(i))
            }
            Op::Neighbour { of, how, created_at } => {
                if n == 0 {
                    return None;
                }
                let base = self.events[idx16(*of, n)].clone();
                let mut tags = base.tags.clone();
                // how >= 128: the neighbour differs in the value of the first valued tag of any name (p of a gift wrap,
                // e, t, ...: index keys pad and cut values); otherwise in its d value
                let any_tag = *how >= 128;
                let pos = if any_tag { tags.iter().position(|t| t.len() >= 2 && t[0].len() == 1)? } else { tags.iter().position(|t| t.len() >= 2 && t[0] == "d")? };
                let d = tags[pos][1].clone();
                if !any_tag && how % 9 >= 7 {
                    // a second d tag: the event lives at another address but also carries the base event's identifier
                    // as an additional d tag (tag filters see every d tag, the address only the first)
                    if how % 9 == 7 {
                        tags.insert(pos, vec!["d".to_string(), format!("{d}-alt")]);
                    } else {
                        tags.push(vec!["d".to_string(), "x".to_string()]);
                    }
                    let canon = serde_json::to_string(&serde_json::json!([0, base.pubkey, created_at, base.kind, tags, base.content])).unwrap();
                    let m = MEvent {
                        id: hex(&sha256(canon.as_bytes())),
                        created_at: *created_at,
                        tags,
                        ..base
                    };
                    let i = self.intern(m, None);
                    return Some(Concrete::Store(i));
                }
                let nd = match how % 7 {
                    // a ':' inside the identifier (addresses are written kind:pubkey:d)
                    5 => format!("{d}:y"),
                    6 => match d.find(':') {
                        Some(p) => d[..p].to_string(),
                        None => format!(":{d}"),
                    },
                    0 => format!("{d}\0"),
                    1 => {
                        if d.ends_with('\0') {
                            d[..d.len() - 1].to_string()
                        } else {
                            format!("{d}\0\0")
                        }
                    }
                    2 => {
                        // flip the last byte (beyond byte 182 when the value is long)
                        let mut b = d.clone().into_bytes();
                        match b.last_mut() {
                            Some(l) if l.is_ascii_alphanumeric() => *l = if *l == b'a' { b'b' } else { b'a' },
                            _ => b.push(b'a'),
                        }
                        String::from_utf8(b).unwrap_or(d.clone())
                    }
                    3 => {
                        if d.len() > 182 && d.is_char_boundary(182) {
                            d[..182].to_string()
                        } else {
                            let mut x = d.clone();
                            while x.len() < 183 {
                                x.push('q');
                            }
                            x
                        }
                    }
                    _ => {
                        let mut x = d.clone();
                        while x.len() < 182 {
                            x.push('\0');
                        }
                        x
                    }
                };
                tags[pos][1] = nd;
                let canon = serde_json::to_string(&serde_json::json!([0, base.pubkey, created_at, base.kind, tags, base.content])).unwrap();
                let m = MEvent {
                    id: hex(&sha256(canon.as_bytes())),
                    created_at: *created_at,
                    tags,
                    ..base
                };
                let i = self.intern(m, None);
                Some(Concrete::Store(i))
            }
            Op::Remove(i) => {
                if n == 0 {
                    None
                } else {
                    Some(Concrete::Remove(self.events[idx16(*i, n)].id.clone()))
                }
            }
            Op::RemoveAbsent(i) => Some(Concrete::Remove(self.absent_ids[(*i as usize) % self.absent_ids.len()].clone())),
            Op::DeleteReq { author: a, created_at, targets } => {
                let tags = self.resolve_targets(*a, targets);
                let ge = GenEvent {
                    author: *a,
                    kind: 5,
                    created_at: *created_at,
                    tags,
                    content_len: 0,
                    idc: IdChoice::Hash,
                    many: 0,
                };
                let i = self.intern(ge.to_model(), None);
                Some(Concrete::Store(i))
            }
            Op::DeleteOwn { of, by_addr, dt } => {
                if n == 0 {
                    return None;
                }
                let target = self.events[idx16(*of, n)].clone();
                let t = if *dt >= 0 { target.created_at.saturating_add(*dt as u64) } else { target.created_at.saturating_sub((-*dt) as u64) };
                let tag = match (by_addr, World::address_of(&target)) {
                    (true, Some((k, a, d))) => vec!["a".to_string(), format!("{k}:{a}:{d}")],
                    _ => vec!["e".to_string(), target.id.clone()],
                };
                let canon = serde_json::to_string(&serde_json::json!([0, target.pubkey, t, 5, [tag.clone()], ""])).unwrap();
                let m = MEvent {
                    id: hex(&sha256(canon.as_bytes())),
                    pubkey: target.pubkey.clone(),
                    sig: "5a".repeat(64),
                    kind: 5,
                    created_at: t,
                    tags: vec![tag],
                    content: String::new(),
                };
                let i = self.intern(m, None);
                Some(Concrete::Store(i))
            }
            Op::Vanish(a) => Some(Concrete::Vanish(author(*a))),
            Op::Reopen => Some(Concrete::Reopen),
            Op::Rebuild => Some(Concrete::Rebuild),
            Op::ExtraPut { table, key, val } => Some(Concrete::Extra(*table, key.clone(), Some(val.clone()))),
            Op::ExtraDel { table, key } => Some(Concrete::Extra(*table, key.clone(), None)),
            Op::Pressure(inner) => self.concretise(inner).map(|c| Concrete::Pressure(Box::new(c))),
            Op::Big { kb, author: a } => {
                let ge = GenEvent {
                    author: *a,
                    kind: 1,
                    created_at: 160 + (self.events.len() as u64 % 5),
                    tags: vec![vec!["t".to_string(), format!("big-{}", self.events.len())]],
                    content_len: *kb as u32 * 1024,
                    idc: IdChoice::Hash,
                    many: 0,
                };
                let i = self.intern(ge.to_model(), Some(&ge));
                Some(Concrete::Store(i))
            }
            Op::MassDelete { author: a, n, each } => {
                let mut idxs = Vec::new();
                for k in 0..*n {
                    let tags: Vec<Vec<String>> = (0..*each)
                        .map(|j| {
                            let mut id = [0x5au8; 32];
                            id[..8].copy_from_slice(&(((self.events.len() as u64) << 32) | ((k as u64) << 16) | j as u64).to_be_bytes());
                            vec!["e".to_string(), hex(&id)]
                        })
                        .collect();
                    let ge = GenEvent { author: *a, kind: 5, created_at: 170, tags, content_len: 0, idc: IdChoice::Hash, many: 0 };
                    idxs.push(self.intern(ge.to_model(), Some(&ge)));
                }
                Some(Concrete::StoreMany(idxs))
            }
            Op::FillTo { slack, author: a } => {
                let end = self.st().stats().ok()?.event_bytes;
                let file_len = self.map_len() as usize;
                let start = (end + 7) & !7;
                let slack = (*slack as usize / 8) * 8;
                // event = 144 + tag section (4 + 2 + 2 + 2+1 + 2+4 = "t","fill") + 4 + content
                let tags = vec![vec!["t".to_string(), "fill".to_string()]];
                let fixed = 144 + crate::model::tags_size(&tags) + 4;
                if file_len < start + fixed + slack {
                    return None;
                }
                let content_len = file_len - start - fixed - slack;
                let ge = GenEvent {
                    author: *a,
                    kind: 1,
                    created_at: 150 + (self.events.len() as u64 % 7),
                    tags,
                    content_len: content_len as u32,
                    idc: IdChoice::Hash,
                    many: 0,
                };
                let i = self.intern(ge.to_model(), Some(&ge));
                Some(Concrete::Store(i))
            }
        }
    }

    /// Takes every free LMDB reader slot (released when the returned guard is dropped).
    pub fn exhaust_readers(&self) -> Vec<pocket_db::heed::RoTxn<'static>> {
        let st = self.st();
        let mut held: Vec<pocket_db::heed::RoTxn<'static>> = Vec::new();
        for _ in 0..300 {
            match st.read_txn() {
                // SAFETY: the transactions are dropped before the store is closed (callers hold them only
                // across one operation on the same, still open store)
                Ok(t) => held.push(unsafe { std::mem::transmute::<pocket_db::heed::RoTxn<'_>, pocket_db::heed::RoTxn<'static>>(t) }),
                Err(_) => break,
            }
        }
        held
    }

    pub fn apply(&mut self, c: &Concrete) -> Step {
        match c {
            Concrete::Store(i) => Step {
                kind: StepKind::Store(*i),
                res: self.store_idx(*i),
            },
            Concrete::Remove(id) => Step {
                kind: StepKind::Remove(id.clone()),
                res: self.remove_id(id),
            },
            Concrete::Vanish(a) => Step {
                kind: StepKind::Vanish(a.clone()),
                res: self.vanish(a),
            },
            Concrete::Reopen => Step {
                kind: StepKind::Reopen,
                res: self.reopen(),
            },
            Concrete::Rebuild => Step {
                kind: StepKind::Rebuild,
                res: self.rebuild(),
            },
            Concrete::Extra(t, k, v) => Step {
                kind: StepKind::Extra,
                res: self.extra_put(*t, k, v.as_deref()),
            },
            Concrete::StoreMany(v) => {
                let mut last = Res::Skipped;
                for i in v {
                    last = self.store_idx(*i);
                    if matches!(last, Res::Panic(_)) {
                        break;
                    }
                }
                Step { kind: StepKind::Nop, res: last }
            }
            Concrete::Pressure(inner) => {
                let held = self.exhaust_readers();
                let full = held.len() >= 100;
                let step = self.apply(inner);
                drop(held);
                let _ = full;
                step
            }
        }
    }

    // -------------------------------------------------------------------------------------
    // Observations

    pub fn get_by_id(&self, id: &str) -> Result<Option<Vec<u8>>, String> {
        let st = self.st();
        match guard("Store::get_event_by_id", || st.get_event_by_id(Id::from_bytes(arr32(id))).map(|o| o.map(|e| e.as_bytes().to_vec()))) {
            Ok(Ok(v)) => Ok(v),
            Ok(Err(e)) => Err(format!("get_event_by_id error: {}", crate::props::c01::err_class(&e))),
            Err(f) => Err(f.key),
        }
    }

    pub fn get_by_offset(&self, off: u64) -> Result<Vec<u8>, String> {
        let st = self.st();
        match guard("Store::get_event_by_offset", || st.get_event_by_offset(off).map(|e| e.as_bytes().to_vec())) {
            Ok(Ok(v)) => Ok(v),
            Ok(Err(e)) => Err(format!("get_event_by_offset error: {}", crate::props::c01::err_class(&e))),
            Err(f) => Err(f.key),
        }
    }

    pub fn has(&self, id: &str) -> Result<bool, String> {
        let st = self.st();
        match guard("Store::has_event", || st.has_event(Id::from_bytes(arr32(id)))) {
            Ok(Ok(v)) => Ok(v),
            Ok(Err(e)) => Err(format!("has_event error: {}", crate::props::c01::err_class(&e))),
            Err(f) => Err(f.key),
        }
    }

    /// Indexes of the events that can currently be fetched by id.
    pub fn retrievable(&self) -> Result<BTreeSet<usize>, String> {
        let mut r = BTreeSet::new();
        for (i, e) in self.events.iter().enumerate() {
            match self.get_by_id(&e.id)? {
                Some(bytes) => {
                    if bytes != self.owned[i].as_bytes() {
                        return Err(format!("get_event_by_id({}) returns bytes that differ from the submitted event", &e.id[..8]));
                    }
                    let _ = r.insert(i);
                }
                None => {}
            }
        }
        Ok(r)
    }

    pub fn query(&self, f: &MFilter) -> Result<Vec<String>, String> {
        self.query_with(self.st(), f)
    }

    pub fn query_with(&self, st: &Store, f: &MFilter) -> Result<Vec<String>, String> {
        let of = f.to_owned_filter()?;
        match guard("Store::find_events", || st.find_events(&of, true, 0, 0, |_| ScreenResult::Match).map(|(v, _)| v.iter().map(|e| hex(e.id().as_slice())).collect::<Vec<_>>())) {
            Ok(Ok(v)) => Ok(v),
            Ok(Err(e)) => Err(format!("find_events error: {}", crate::props::c01::err_class(&e))),
            Err(f) => Err(f.key),
        }
    }

    /// Everything observable, as an ordered map (so that two snapshots can be diffed by key).
    pub fn snapshot(&self) -> Result<BTreeMap<String, String>, String> {
        self.snapshot_with(self.st())
    }

    pub fn snapshot_with(&self, st: &Store) -> Result<BTreeMap<String, String>, String> {
        let mut s: BTreeMap<String, String> = BTreeMap::new();
        let mut ids: Vec<String> = self.events.iter().map(|e| e.id.clone()).collect();
        ids.extend(self.absent_ids.iter().cloned());
        ids.push("00".repeat(32));
        ids.push("ff".repeat(32));
        ids.sort();
        ids.dedup();
        let short = |id: &str| id[..10].to_string();
        // addresses mentioned anywhere
        let mut addrs: BTreeSet<(u16, String, String)> = BTreeSet::new();
        let mut tagvals: BTreeSet<(String, String)> = BTreeSet::new();
        let mut authors: BTreeSet<String> = BTreeSet::new();
        let mut aks: BTreeSet<(String, u16)> = BTreeSet::new();
        for e in &self.events {
            let _ = authors.insert(e.pubkey.clone());
            let _ = aks.insert((e.pubkey.clone(), e.kind));
            if let Some(a) = World::address_of(e) {
                let _ = addrs.insert(a);
            }
            for t in e.tags.iter().take(if e.tags.len() > 12 { 2 } else { 12 }) {
                if t.len() >= 2 && t[0].len() == 1 && tagvals.len() < 40 {
                    let _ = tagvals.insert((t[0].clone(), t[1].clone()));
                }
                if e.kind == 5 && t.len() >= 2 && t[0] == "a" {
                    if let Some(a) = parse_addr(&t[1]) {
                        let _ = addrs.insert(a);
                    }
                }
            }
        }
        for a in 0..4u8 {
            let _ = authors.insert(author(a));
        }
        let r = guard("snapshot lookups", || -> Result<(), String> {
            for id in &ids {
                let pid = Id::from_bytes(arr32(id));
                let has = st.has_event(pid).map_err(|e| format!("has_event: {e}"))?;
                let got = st.get_event_by_id(pid).map_err(|e| format!("get_event_by_id: {}", crate::props::c01::err_class(&e)))?;
                let del = st.event_is_deleted(pid).map_err(|e| format!("event_is_deleted: {e}"))?;
                let _ = s.insert(format!("has_event:{}", short(id)), has.to_string());
                let _ = s.insert(
                    format!("get_event_by_id:{}", short(id)),
                    match got {
                        Some(e) => format!("{:016x}", fingerprint(&e.as_bytes().to_vec())),
                        None => "none".into(),
                    },
                );
                let _ = s.insert(format!("event_is_deleted:{}", short(id)), del.to_string());
            }
            for (k, a, d) in &addrs {
                let addr = Addr {
                    kind: Kind::from_u16(*k),
                    author: Pubkey::from_bytes(arr32(a)),
                    d: d.as_bytes().to_vec(),
                };
                let key = format!("{}:{}:{}", k, &a[..6], crate::engine::shorten(&serde_json::Value::String(d.clone()), 24));
                let when = st.naddr_is_deleted_asof(&addr);
                let _ = s.insert(
                    format!("naddr_is_deleted_asof:{key}#{:x}", fingerprint(d) & 0xffff),
                    match when {
                        Ok(Some(t)) => t.as_u64().to_string(),
                        Ok(None) => "none".into(),
                        Err(e) => format!("err:{}", crate::props::c01::err_class(&e)),
                    },
                );
                if kind_is_replaceable(*k) {
                    let r = st.find_replaceable_event(addr.author, addr.kind).map_err(|e| format!("find_replaceable_event: {e}"))?;
                    let _ = s.insert(format!("find_replaceable_event:{key}"), r.map(|e| short(&hex(e.id().as_slice()))).unwrap_or("none".into()));
                } else if kind_is_param_replaceable(*k) {
                    let r = st.find_parameterized_replaceable_event(&addr).map_err(|e| format!("find_parameterized_replaceable_event: {e}"))?;
                    let _ = s.insert(
                        format!("find_parameterized_replaceable_event:{key}#{:x}", fingerprint(d) & 0xffff),
                        r.map(|e| short(&hex(e.id().as_slice()))).unwrap_or("none".into()),
                    );
                }
            }
            Ok(())
        });
        match r {
            Ok(Ok(())) => {}
            Ok(Err(e)) => return Err(e),
            Err(f) => return Err(f.key),
        }
        // the query panel: one filter per index plan and key
        let mut panel: Vec<(String, MFilter)> = Vec::new();
        panel.push(("query:all".into(), MFilter::default()));
        panel.push((
            "query:ids".into(),
            MFilter {
                ids: ids.clone(),
                ..Default::default()
            },
        ));
        for a in &authors {
            panel.push((
                format!("query:author:{}", &a[..6]),
                MFilter {
                    authors: vec![a.clone()],
                    ..Default::default()
                },
            ));
        }
        for (a, k) in &aks {
            panel.push((
                format!("query:author+kind:{}:{}", &a[..6], k),
                MFilter {
                    authors: vec![a.clone()],
                    kinds: vec![*k],
                    ..Default::default()
                },
            ));
        }
        for (n, v) in &tagvals {
            let key = format!("{}={}#{:x}", n, crate::engine::shorten(&serde_json::Value::String(v.clone()), 16), fingerprint(v) & 0xffff);
            let tf = MFilter {
                tags: vec![(n.clone(), vec![v.clone()])],
                ..Default::default()
            };
            panel.push((format!("query:tag:{key}"), tf.clone()));
            for a in authors.iter().take(2) {
                let mut f = tf.clone();
                f.authors = vec![a.clone()];
                panel.push((format!("query:author+tag:{}:{key}", &a[..6]), f));
            }
            for k in [1u16, 30023, 1059] {
                let mut f = tf.clone();
                f.kinds = vec![k];
                panel.push((format!("query:kind+tag:{k}:{key}"), f));
            }
        }
        for (name, f) in panel {
            let v = self.query_with(st, &f)?;
            let _ = s.insert(name, v.iter().map(|i| short(i)).collect::<Vec<_>>().join(","));
        }
        // statistics
        let stats = match guard("Store::stats", || st.stats()) {
            Ok(Ok(x)) => x,
            Ok(Err(e)) => return Err(format!("stats: {e}")),
            Err(f) => return Err(f.key),
        };
        let i = &stats.index_stats;
        for (n, v) in [
            ("general", i.general_entries),
            ("i_index", i.i_index_entries),
            ("ci_index", i.ci_index_entries),
            ("tc_index", i.tc_index_entries),
            ("ac_index", i.ac_index_entries),
            ("akc_index", i.akc_index_entries),
            ("atc_index", i.atc_index_entries),
            ("ktc_index", i.ktc_index_entries),
            ("deleted_index", i.deleted_index_entries),
            ("deleted_naddr_index", i.deleted_naddr_index_entries),
        ] {
            let _ = s.insert(format!("stats:{n}_entries"), v.to_string());
        }
        // extra tables
        for t in 0..self.n_extra {
            let rows = guard("extra table scan", || -> Result<Vec<String>, pocket_db::Error> {
                let db = st.extra_table(EXTRA_TABLES[t]).expect("extra table");
                let txn = st.read_txn()?;
                let mut rows = Vec::new();
                for e in db.iter(&txn)? {
                    let (k, v) = e?;
                    rows.push(format!("{}={}", hex(k), hex(v)));
                }
                Ok(rows)
            });
            match rows {
                Ok(Ok(r)) => {
                    let _ = s.insert(format!("extra:{}", EXTRA_TABLES[t]), r.join(";"));
                }
                Ok(Err(e)) => return Err(format!("extra table scan: {e}")),
                Err(f) => return Err(f.key),
            }
        }
        Ok(s)
    }
}

impl Drop for World {
    fn drop(&mut self) {
        if let Some(st) = self.store.take() {
            close_store(st);
        }
    }
}

#[derive(Clone, Debug, Serialize, Deserialize, PartialEq)]
pub enum Concrete {
    Store(usize),
    Remove(String),
    Vanish(String),
    Reopen,
    Rebuild,
    Extra(u8, Vec<u8>, Option<Vec<u8>>),
    Pressure(Box<Concrete>),
    StoreMany(Vec<usize>),
}

impl Concrete {
    /// The operation itself, looking through fault-injection wrappers.
    pub fn inner(&self) -> &Concrete {
        match self {
            Concrete::Pressure(c) => c.inner(),
            c => c,
        }
    }
    pub fn under_pressure(&self) -> bool {
        matches!(self, Concrete::Pressure(_))
    }
}

pub fn idx16(i: u16, n: usize) -> usize {
    (((i as usize) * n) >> 16).min(n.saturating_sub(1))
}

/// First key whose value differs between two snapshots, as (category, description).
pub fn diff_snapshots(a: &BTreeMap<String, String>, b: &BTreeMap<String, String>) -> Option<(String, String)> {
    if std::env::var("PV_VERBOSE").is_ok() {
        for (k, v) in a {
            if b.get(k) != Some(v) {
                eprintln!("  DIFF {k}: {v} -> {:?}", b.get(k));
            }
        }
    }
    for (k, v) in a {
        match b.get(k) {
            Some(w) if w == v => {}
            Some(w) => return Some((category(k), format!("{k}: {v} -> {w}"))),
            None => return Some((category(k), format!("{k}: {v} -> (missing)"))),
        }
    }
    for (k, w) in b {
        if !a.contains_key(k) {
            return Some((category(k), format!("{k}: (missing) -> {w}")));
        }
    }
    None
}

fn category(k: &str) -> String {
    let mut parts = k.split(':');
    let a = parts.next().unwrap_or("");
    if a == "query" {
        format!("query:{}", parts.next().unwrap_or(""))
    } else if a == "stats" {
        format!("stats:{}", parts.next().unwrap_or(""))
    } else {
        a.to_string()
    }
}

pub fn describe_ops(w: &World, ops: &[Op]) -> String {
    let _ = w;
    format!("{} ops", ops.len())
}
