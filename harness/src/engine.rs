//! Engine: proptest-driven runner, panic capture, known-finding matching, replay files, evidence.

use proptest::strategy::{BoxedStrategy, Strategy};
use proptest::test_runner::{Config, RngAlgorithm, RngSeed, TestCaseError, TestError, TestRunner};
use serde::de::DeserializeOwned;
use serde::{Deserialize, Serialize};
use serde_json::{json, Map, Value};
use std::cell::{Cell, RefCell};
use std::collections::{BTreeMap, HashSet};
use std::fmt::Debug;
use std::hash::{Hash, Hasher};
use std::path::{Path, PathBuf};
use std::sync::atomic::{AtomicBool, AtomicU64, Ordering};
use std::sync::{Arc, Mutex};
use std::time::Instant;

#[derive(Clone, Copy, Debug, PartialEq, Eq)]
pub enum Tier {
    Quick,
    Thorough,
}

impl Tier {
    pub fn name(&self) -> &'static str {
        match self {
            Tier::Quick => "quick",
            Tier::Thorough => "thorough",
        }
    }
    pub fn pick<T>(&self, quick: T, thorough: T) -> T {
        match self {
            Tier::Quick => quick,
            Tier::Thorough => thorough,
        }
    }
}

#[derive(Clone, Debug, Serialize, Deserialize)]
pub struct Fail {
    pub key: String,
    pub detail: String,
}

impl Fail {
    pub fn new(key: impl Into<String>, detail: impl Into<String>) -> Fail {
        Fail {
            key: key.into(),
            detail: detail.into(),
        }
    }
}

#[derive(Clone, Debug, Default)]
pub struct Outcome {
    pub labels: Vec<String>,
    pub nontrivial: bool,
    pub fail: Option<Fail>,
    /// for cases that enumerate sub-executions themselves (e.g. every kill point of a history):
    /// number of sub-executions and how many of them were non-trivial
    pub sub_evals: u64,
    pub sub_nontrivial: u64,
    /// set when the case could not be decided (e.g. a schedule controller timed out): exit 2, never a violation
    pub inconclusive: Option<String>,
}

impl Outcome {
    pub fn label(&mut self, l: impl Into<String>) {
        let l = l.into();
        if !self.labels.contains(&l) {
            self.labels.push(l);
        }
    }
    pub fn fail(&mut self, key: impl Into<String>, detail: impl Into<String>) {
        if self.fail.is_none() {
            self.fail = Some(Fail::new(key, detail));
        }
    }
    pub fn failed(&self) -> bool {
        self.fail.is_some()
    }
}

pub trait Prop: Sync + Send + 'static {
    type Case: Clone + Debug + Serialize + DeserializeOwned + Send + Sync + 'static;
    fn id(&self) -> &'static str;
    /// How cases are generated and what makes one non-trivial / distinct.
    fn rule(&self) -> String;
    fn assumptions(&self) -> Vec<String>;
    fn level(&self) -> &'static str {
        "exploration"
    }
    fn strategy(&self, tier: Tier) -> BoxedStrategy<Self::Case>;
    /// Number of random cases for this tier (in this build profile).
    fn cases(&self, tier: Tier) -> u32;
    /// Deterministically enumerated cases that run before the random ones.
    fn enumerate(&self, _tier: Tier) -> Vec<Self::Case> {
        Vec::new()
    }
    /// Description of completely enumerated sub-spaces, for the evidence.
    fn enumerated_subspaces(&self, _tier: Tier) -> Vec<String> {
        Vec::new()
    }
    fn check(&self, case: &Self::Case) -> Outcome;
    /// Worker threads to use (DB properties may want fewer).
    fn workers(&self, _tier: Tier) -> usize {
        16
    }
    /// Floors (fraction of evaluations) for labels whose absence indicates a sick generator.
    fn label_floors(&self) -> Vec<(&'static str, f64)> {
        Vec::new()
    }
    /// Extra keys for coverage, computed after the run.
    fn extra_coverage(&self) -> Map<String, Value> {
        Map::new()
    }
    fn max_shrink_iters(&self) -> u32 {
        3000
    }
    /// Share of `cases()` that runs in the release profile when the property runs in both profiles
    /// (the quick tier of the store properties spends most of its budget where the event map grows often).
    fn release_fraction(&self, _tier: Tier) -> f64 {
        1.0
    }
}

// ------------------------------------------------------------------------------------------
// Paths

pub fn root() -> PathBuf {
    PathBuf::from(std::env::var("PV_ROOT").unwrap_or_else(|_| "/verif".to_string()))
}

pub fn repo_root() -> String {
    option_env!("PV_REPO_BUILD").unwrap_or("/repo").to_string()
}

pub fn profile_name() -> &'static str {
    if cfg!(debug_assertions) {
        "chk"
    } else {
        "release"
    }
}

// ------------------------------------------------------------------------------------------
// Panic capture

thread_local! {
    static LAST_PANIC: RefCell<Option<(String, u32, String)>> = const { RefCell::new(None) };
    static QUIET: Cell<bool> = const { Cell::new(false) };
}

pub fn install_panic_hook() {
    let default = std::panic::take_hook();
    std::panic::set_hook(Box::new(move |info| {
        let quiet = QUIET.with(|q| q.get());
        let (file, line) = info
            .location()
            .map(|l| (l.file().to_string(), l.line()))
            .unwrap_or(("?".into(), 0));
        let msg = if let Some(s) = info.payload().downcast_ref::<&str>() {
            s.to_string()
        } else if let Some(s) = info.payload().downcast_ref::<String>() {
            s.clone()
        } else {
            "<non-string panic>".to_string()
        };
        if quiet {
            LAST_PANIC.with(|p| *p.borrow_mut() = Some((file, line, msg)));
        } else {
            default(info);
        }
    }));
}

fn normalise_digits(s: &str) -> String {
    let mut out = String::new();
    let mut in_num = false;
    for c in s.chars() {
        if c.is_ascii_digit() {
            if !in_num {
                out.push('N');
                in_num = true;
            }
        } else {
            in_num = false;
            out.push(c);
        }
    }
    if out.len() > 90 {
        let mut cut = 90;
        while !out.is_char_boundary(cut) {
            cut -= 1;
        }
        out.truncate(cut);
    }
    out
}

fn source_statement(file: &str, line: u32) -> String {
    let path = if Path::new(file).is_absolute() {
        PathBuf::from(file)
    } else {
        PathBuf::from(repo_root()).join(file)
    };
    if let Ok(text) = std::fs::read_to_string(&path) {
        if let Some(l) = text.lines().nth((line as usize).saturating_sub(1)) {
            let mut s: String = l.trim().to_string();
            if s.len() > 80 {
                let mut cut = 80;
                while !s.is_char_boundary(cut) {
                    cut -= 1;
                }
                s.truncate(cut);
            }
            return s;
        }
    }
    format!("line{}", line)
}

/// Run `f`, turning a panic into a `Fail` whose key is stable under line shifts:
/// `panic:<entry>:<file basename>:<statement text>:<message with numbers normalised>`.
pub fn guard<T>(entry: &str, f: impl FnOnce() -> T) -> Result<T, Fail> {
    let prev = QUIET.with(|q| q.replace(true));
    LAST_PANIC.with(|p| *p.borrow_mut() = None);
    let r = std::panic::catch_unwind(std::panic::AssertUnwindSafe(f));
    QUIET.with(|q| q.set(prev));
    match r {
        Ok(v) => Ok(v),
        Err(_) => {
            let (file, line, msg) = LAST_PANIC
                .with(|p| p.borrow_mut().take())
                .unwrap_or(("?".into(), 0, "?".into()));
            let in_repo = file.contains("pocket-types") || file.contains("pocket-db");
            let base = Path::new(&file)
                .file_name()
                .map(|s| s.to_string_lossy().to_string())
                .unwrap_or_default();
            let stmt = if in_repo {
                source_statement(&file, line)
            } else {
                String::new()
            };
            Err(Fail::new(
                format!(
                    "panic:{}:{}:{}:{}",
                    entry,
                    base,
                    stmt,
                    normalise_digits(&msg)
                ),
                format!("panic at {}:{}: {}", file, line, msg),
            ))
        }
    }
}

// ------------------------------------------------------------------------------------------
// Crash capture: a check that dies by a signal (abort from a non-unwinding panic, stack overflow,
// use of an unmapped page) still reports the case it was running.

const SLOTS: usize = 64;
static CUR_CASE_PTR: [std::sync::atomic::AtomicPtr<u8>; SLOTS] = {
    #[allow(clippy::declare_interior_mutable_const)]
    const Z: std::sync::atomic::AtomicPtr<u8> = std::sync::atomic::AtomicPtr::new(std::ptr::null_mut());
    [Z; SLOTS]
};
static CUR_CASE_LEN: [std::sync::atomic::AtomicUsize; SLOTS] = {
    #[allow(clippy::declare_interior_mutable_const)]
    const Z: std::sync::atomic::AtomicUsize = std::sync::atomic::AtomicUsize::new(0);
    [Z; SLOTS]
};
static CRASH_PATHS: std::sync::OnceLock<Vec<std::ffi::CString>> = std::sync::OnceLock::new();
static CRASH_LINES: std::sync::OnceLock<Vec<Vec<u8>>> = std::sync::OnceLock::new();

thread_local! {
    static MY_SLOT: Cell<usize> = const { Cell::new(usize::MAX) };
}

extern "C" fn on_fatal_signal(sig: libc::c_int) {
    unsafe {
        let slot = MY_SLOT.try_with(|s| s.get()).unwrap_or(usize::MAX);
        if slot < SLOTS {
            let p = CUR_CASE_PTR[slot].load(Ordering::SeqCst);
            let n = CUR_CASE_LEN[slot].load(Ordering::SeqCst);
            if let (Some(paths), Some(lines)) = (CRASH_PATHS.get(), CRASH_LINES.get()) {
                if !p.is_null() {
                    let fd = libc::open(paths[slot].as_ptr(), libc::O_CREAT | libc::O_WRONLY | libc::O_TRUNC, 0o644);
                    if fd >= 0 {
                        let _ = libc::write(fd, p as *const libc::c_void, n);
                        let _ = libc::close(fd);
                    }
                    let l = &lines[slot];
                    let _ = libc::write(1, l.as_ptr() as *const libc::c_void, l.len());
                    libc::_exit(1);
                }
            }
        }
        // not inside a case: die the usual way
        let _ = libc::signal(sig, libc::SIG_DFL);
        let _ = libc::raise(sig);
    }
}

/// Installs the fatal-signal handlers for a run of property `id`.
pub fn install_crash_capture(id: &str) {
    let dir = root().join("out").join("replays");
    let _ = std::fs::create_dir_all(&dir);
    let pid = std::process::id();
    let mut paths = Vec::new();
    let mut lines = Vec::new();
    for s in 0..SLOTS {
        let p = dir.join(format!("{}-crash-{}-{}-{}.json", id, profile_name(), pid, s));
        lines.push(format!("VIOLATION property={} replay={} key={}:process-killed-by-signal (abort / stack overflow / invalid memory access while running this case)\n", id, p.display(), id).into_bytes());
        paths.push(std::ffi::CString::new(p.to_string_lossy().as_bytes()).unwrap());
    }
    let _ = CRASH_PATHS.set(paths);
    let _ = CRASH_LINES.set(lines);
    unsafe {
        for sig in [libc::SIGABRT, libc::SIGSEGV, libc::SIGBUS, libc::SIGILL, libc::SIGFPE] {
            let mut sa: libc::sigaction = std::mem::zeroed();
            sa.sa_sigaction = on_fatal_signal as usize;
            sa.sa_flags = libc::SA_ONSTACK;
            let _ = libc::sigemptyset(&mut sa.sa_mask);
            let _ = libc::sigaction(sig, &sa, std::ptr::null_mut());
        }
    }
}

/// The crash-capture slot of the calling thread (usize::MAX if none).
pub fn current_slot() -> usize {
    MY_SLOT.with(|s| s.get())
}

/// Threads spawned inside a case call this with their parent's slot, so that a fatal signal on them is
/// attributed to the case that spawned them.
pub fn adopt_slot(slot: usize) {
    MY_SLOT.with(|s| s.set(slot));
}

/// Remembers the case a worker is about to run (as a ready-made replay file).
pub fn note_current_case<C: Serialize>(slot: usize, prop: &str, case: &C) {
    if slot >= SLOTS || CRASH_PATHS.get().is_none() {
        return;
    }
    MY_SLOT.with(|s| s.set(slot));
    let rf = ReplayFile {
        property: prop.to_string(),
        key: format!("{prop}:process-killed-by-signal"),
        detail: "the check process died by a signal while running this case".to_string(),
        profile: profile_name().to_string(),
        case: serde_json::to_value(case).unwrap_or(Value::Null),
    };
    let bytes = serde_json::to_vec(&rf).unwrap_or_default().into_boxed_slice();
    let len = bytes.len();
    let ptr = Box::into_raw(bytes) as *mut u8;
    let old_len = CUR_CASE_LEN[slot].swap(len, Ordering::SeqCst);
    let old = CUR_CASE_PTR[slot].swap(ptr, Ordering::SeqCst);
    if !old.is_null() {
        unsafe {
            drop(Box::from_raw(std::slice::from_raw_parts_mut(old, old_len)));
        }
    }
}

pub fn clear_current_case(slot: usize) {
    if slot < SLOTS {
        let old_len = CUR_CASE_LEN[slot].swap(0, Ordering::SeqCst);
        let old = CUR_CASE_PTR[slot].swap(std::ptr::null_mut(), Ordering::SeqCst);
        if !old.is_null() {
            unsafe {
                drop(Box::from_raw(std::slice::from_raw_parts_mut(old, old_len)));
            }
        }
    }
}

// ------------------------------------------------------------------------------------------
// Known findings

#[derive(Clone, Debug, Serialize, Deserialize)]
pub struct KnownFinding {
    pub status: String, // "open" | "fixed"
    pub property: String,
    pub key: String,
    pub what: String,
    #[serde(default)]
    pub witness: Option<String>,
    #[serde(default)]
    pub commit: Option<String>,
}

pub fn load_known() -> Vec<KnownFinding> {
    let path = root().join("known_findings.jsonl");
    let mut v = Vec::new();
    if let Ok(text) = std::fs::read_to_string(&path) {
        for line in text.lines() {
            let line = line.trim();
            if line.is_empty() || line.starts_with('#') {
                continue;
            }
            match serde_json::from_str::<KnownFinding>(line) {
                Ok(k) => v.push(k),
                Err(e) => eprintln!("known_findings.jsonl: bad line ({e}): {line}"),
            }
        }
    }
    v
}

pub fn open_keys(known: &[KnownFinding], prop: &str) -> HashSet<String> {
    known
        .iter()
        .filter(|k| k.status == "open" && k.property == prop)
        .map(|k| k.key.clone())
        .collect()
}

// ------------------------------------------------------------------------------------------
// Replay files

#[derive(Clone, Debug, Serialize, Deserialize)]
pub struct ReplayFile {
    pub property: String,
    pub key: String,
    pub detail: String,
    #[serde(default)]
    pub profile: String,
    pub case: Value,
}

pub fn fingerprint<T: Serialize>(case: &T) -> u64 {
    let s = serde_json::to_string(case).unwrap_or_default();
    let mut h = std::collections::hash_map::DefaultHasher::new();
    s.hash(&mut h);
    h.finish()
}

fn write_replay<C: Serialize>(prop: &str, fail: &Fail, case: &C) -> PathBuf {
    let dir = root().join("out").join("replays");
    let _ = std::fs::create_dir_all(&dir);
    let rf = ReplayFile {
        property: prop.to_string(),
        key: fail.key.clone(),
        detail: fail.detail.clone(),
        profile: profile_name().to_string(),
        case: serde_json::to_value(case).unwrap_or(Value::Null),
    };
    let text = serde_json::to_string_pretty(&rf).unwrap();
    let mut h = std::collections::hash_map::DefaultHasher::new();
    text.hash(&mut h);
    let path = dir.join(format!("{}-{:016x}.json", prop, h.finish()));
    let _ = std::fs::write(&path, text);
    path
}

pub fn shorten(v: &Value, max: usize) -> Value {
    match v {
        Value::String(s) if s.len() > max => {
            let mut cut = max;
            while !s.is_char_boundary(cut) {
                cut -= 1;
            }
            Value::String(format!("{}…({} bytes)", &s[..cut], s.len()))
        }
        Value::Array(a) => {
            if a.len() > 40 {
                let mut out: Vec<Value> = a.iter().take(40).map(|x| shorten(x, max)).collect();
                out.push(Value::String(format!("…({} items)", a.len())));
                Value::Array(out)
            } else {
                Value::Array(a.iter().map(|x| shorten(x, max)).collect())
            }
        }
        Value::Object(o) => Value::Object(o.iter().map(|(k, x)| (k.clone(), shorten(x, max))).collect()),
        _ => v.clone(),
    }
}

// ------------------------------------------------------------------------------------------
// Run statistics

#[derive(Default)]
pub struct Stats {
    pub evaluations: u64,
    pub enumerated: u64,
    pub nontrivial: HashSet<u64>,
    pub sub_evals: u64,
    pub sub_nontrivial: u64,
    pub labels: BTreeMap<String, u64>,
    pub known_hits: BTreeMap<String, u64>,
    pub samples: Vec<Value>,
    pub nontrivial_samples: Vec<Value>,
}

impl Stats {
    fn record<C: Serialize>(&mut self, case: &C, out: &Outcome, sample_budget: usize) {
        self.evaluations += 1;
        for l in &out.labels {
            *self.labels.entry(l.clone()).or_insert(0) += 1;
        }
        self.sub_evals += out.sub_evals;
        if let Some(why) = &out.inconclusive {
            *self.labels.entry(format!("ABORT:inconclusive:{why}")).or_insert(0) += 1;
        }
        if out.nontrivial {
            let fp = fingerprint(case);
            let new = self.nontrivial.insert(fp);
            if new {
                self.sub_nontrivial += out.sub_nontrivial;
            }
            if new && self.nontrivial_samples.len() < sample_budget {
                self.nontrivial_samples
                    .push(shorten(&serde_json::to_value(case).unwrap_or(Value::Null), 240));
            }
        } else if self.samples.len() < 1 {
            self.samples
                .push(shorten(&serde_json::to_value(case).unwrap_or(Value::Null), 240));
        }
    }
}

pub struct RunArgs {
    pub tier: Tier,
    pub seed: u64,
    pub part_out: Option<PathBuf>,
    pub cases_override: Option<u32>,
}

#[derive(Serialize, Deserialize, Debug, Clone, Default)]
pub struct Part {
    pub profile: String,
    pub evaluations: u64,
    pub enumerated: u64,
    pub distinct_nontrivial: u64,
    #[serde(default)]
    pub sub_evals: u64,
    #[serde(default)]
    pub sub_nontrivial: u64,
    pub labels: BTreeMap<String, u64>,
    pub known_findings_hit: BTreeMap<String, u64>,
    pub known_finding_lines: Vec<String>,
    pub samples: Vec<Value>,
    pub violations: Vec<String>,
    pub regression_replayed: u64,
    pub health: Vec<String>,
    pub wall_s: f64,
    pub extra: Map<String, Value>,
    pub inconclusive: Vec<String>,
}

static CASE_CLOCK: [AtomicU64; 64] = {
    #[allow(clippy::declare_interior_mutable_const)]
    const Z: AtomicU64 = AtomicU64::new(0);
    [Z; 64]
};

fn now_ms() -> u64 {
    use std::time::{SystemTime, UNIX_EPOCH};
    SystemTime::now().duration_since(UNIX_EPOCH).map(|d| d.as_millis() as u64).unwrap_or(0)
}

fn start_watchdog(prop: &'static str, limit_s: u64, done: Arc<AtomicBool>) {
    let _ = std::thread::spawn(move || loop {
        std::thread::sleep(std::time::Duration::from_millis(500));
        if done.load(Ordering::SeqCst) {
            return;
        }
        let now = now_ms();
        for (i, c) in CASE_CLOCK.iter().enumerate() {
            let t = c.load(Ordering::SeqCst);
            if t != 0 && now > t + limit_s * 1000 {
                println!(
                    "INCONCLUSIVE property={} worker={} a single case exceeded {} s (watchdog)",
                    prop, i, limit_s
                );
                std::process::exit(2);
            }
        }
    });
}

/// Replays every committed witness / regression file for this property.
/// Returns (known-finding lines, violation lines, count replayed).
fn replay_committed<P: Prop>(p: &P, known: &[KnownFinding]) -> (Vec<String>, Vec<String>, u64) {
    let id = p.id();
    let open = open_keys(known, id);
    let mut kf_lines = Vec::new();
    let mut viol = Vec::new();
    let mut n = 0;
    let dir = root().join("findings");
    let mut files: Vec<PathBuf> = Vec::new();
    if let Ok(rd) = std::fs::read_dir(&dir) {
        for e in rd.flatten() {
            let path = e.path();
            if path.extension().map(|x| x == "json").unwrap_or(false) {
                files.push(path);
            }
        }
    }
    files.sort();
    let mut seen_open: HashSet<String> = HashSet::new();
    for path in files {
        let Ok(text) = std::fs::read_to_string(&path) else { continue };
        let Ok(rf) = serde_json::from_str::<ReplayFile>(&text) else { continue };
        if rf.property != id {
            continue;
        }
        if !rf.profile.is_empty() && rf.profile != profile_name() && rf.profile != "any" {
            continue;
        }
        let Ok(case) = serde_json::from_value::<P::Case>(rf.case.clone()) else {
            viol.push(format!(
                "VIOLATION property={} replay={} (committed witness does not deserialise)",
                id,
                path.display()
            ));
            continue;
        };
        n += 1;
        note_current_case(63, id, &case);
        let out = p.check(&case);
        clear_current_case(63);
        if let Some(f) = out.fail {
            if open.contains(&f.key) {
                if seen_open.insert(f.key.clone()) {
                    let what = known
                        .iter()
                        .find(|k| k.key == f.key && k.property == id)
                        .map(|k| k.what.clone())
                        .unwrap_or_default();
                    kf_lines.push(format!("KNOWN-FINDING: property={} key={} {}", id, f.key, what));
                }
            } else {
                viol.push(format!(
                    "VIOLATION property={} replay={} key={}",
                    id,
                    path.display(),
                    f.key
                ));
            }
        }
    }
    (kf_lines, viol, n)
}

/// `&P` wrapper so that properties (which are `'static + Sync`) can be shared with worker threads.
struct Shared<P: Prop>(*const P);
unsafe impl<P: Prop> Send for Shared<P> {}
unsafe impl<P: Prop> Sync for Shared<P> {}
impl<P: Prop> std::ops::Deref for Shared<P> {
    type Target = P;
    fn deref(&self) -> &P {
        unsafe { &*self.0 }
    }
}

/// Runs the property; all worker threads are joined before this returns, so borrowing `p` is sound.
pub fn run_prop_shared<P: Prop>(p: &P, args: &RunArgs) -> Part {
    let t0 = Instant::now();
    let id = p.id();
    let known = load_known();
    let open = Arc::new(open_keys(&known, id));
    let p = Arc::new(Shared(p as *const P));
    let mut part = Part {
        profile: profile_name().to_string(),
        ..Default::default()
    };

    let done = Arc::new(AtomicBool::new(false));
    start_watchdog(id, args.tier.pick(120, 900), done.clone());
    install_crash_capture(id);

    // 1. committed witnesses and regressions
    CASE_CLOCK[63].store(now_ms(), Ordering::SeqCst);
    let (kf, viol, n) = replay_committed(&**p, &known);
    CASE_CLOCK[63].store(0, Ordering::SeqCst);
    for l in &kf {
        println!("{}", l);
    }
    for l in &viol {
        println!("{}", l);
    }
    part.known_finding_lines = kf;
    part.violations.extend(viol);
    part.regression_replayed = n;

    let stats = Arc::new(Mutex::new(Stats::default()));
    let stop = Arc::new(AtomicBool::new(false));
    let violation: Arc<Mutex<Option<(Fail, Value, PathBuf)>>> = Arc::new(Mutex::new(None));

    // 2. enumerated cases (parallel over workers, no shrinking)
    let en = p.enumerate(args.tier);
    let workers = p.workers(args.tier).max(1).min(60);
    if !en.is_empty() {
        let en = Arc::new(en);
        let next = Arc::new(AtomicU64::new(0));
        let mut hs = Vec::new();
        for w in 0..workers {
            let (p, en, next, stats, stop, violation, open) = (
                p.clone(),
                en.clone(),
                next.clone(),
                stats.clone(),
                stop.clone(),
                violation.clone(),
                open.clone(),
            );
            hs.push(std::thread::spawn(move || {
                let mut local = Stats::default();
                loop {
                    if stop.load(Ordering::SeqCst) {
                        break;
                    }
                    let i = next.fetch_add(1, Ordering::SeqCst) as usize;
                    if i >= en.len() {
                        break;
                    }
                    CASE_CLOCK[w].store(now_ms(), Ordering::SeqCst);
                    note_current_case(w, p.id(), &en[i]);
                    let out = p.check(&en[i]);
                    CASE_CLOCK[w].store(0, Ordering::SeqCst);
                    local.record(&en[i], &out, 2);
                    local.enumerated += 1;
                    if let Some(f) = out.fail {
                        if open.contains(&f.key) {
                            *local.known_hits.entry(f.key.clone()).or_insert(0) += 1;
                        } else {
                            let path = write_replay(p.id(), &f, &en[i]);
                            let mut v = violation.lock().unwrap();
                            if v.is_none() {
                                *v = Some((f, serde_json::to_value(&en[i]).unwrap_or(Value::Null), path));
                            }
                            stop.store(true, Ordering::SeqCst);
                        }
                    }
                }
                merge_stats(&stats, local);
            }));
        }
        for h in hs {
            let _ = h.join();
        }
    }

    // 3. random cases
    let mut total_cases = args.cases_override.unwrap_or_else(|| p.cases(args.tier));
    if profile_name() == "release" && args.cases_override.is_none() {
        total_cases = ((total_cases as f64) * p.release_fraction(args.tier)).ceil() as u32;
    }
    if total_cases > 0 && !stop.load(Ordering::SeqCst) {
        let per = (total_cases as usize).div_ceil(workers) as u32;
        let mut hs = Vec::new();
        for w in 0..workers {
            let (p, stats, stop, violation, open) =
                (p.clone(), stats.clone(), stop.clone(), violation.clone(), open.clone());
            let seed = args.seed;
            let tier = args.tier;
            hs.push(
                std::thread::Builder::new()
                    .stack_size(64 * 1024 * 1024)
                    .spawn(move || {
                        let mut seed_bytes = [0u8; 32];
                        seed_bytes[..8].copy_from_slice(&seed.to_le_bytes());
                        seed_bytes[8..16].copy_from_slice(&(w as u64).to_le_bytes());
                        seed_bytes[16..24].copy_from_slice(&fingerprint(&p.id()).to_le_bytes());
                        seed_bytes[24] = if cfg!(debug_assertions) { 1 } else { 2 };
                        let _ = RngSeed::Random;
                        let config = Config {
                            cases: per,
                            failure_persistence: None,
                            max_shrink_iters: p.max_shrink_iters(),
                            max_global_rejects: 1_000_000,
                            rng_algorithm: RngAlgorithm::ChaCha,
                            ..Config::default()
                        };
                        let rng = proptest::test_runner::TestRng::from_seed(RngAlgorithm::ChaCha, &seed_bytes);
                        let mut runner = TestRunner::new_with_rng(config, rng);
                        let strat = p.strategy(tier);
                        let local = RefCell::new(Stats::default());
                        let first_fail: RefCell<Option<Fail>> = RefCell::new(None);
                        let res = runner.run(&strat, |case| {
                            if stop.load(Ordering::SeqCst) && first_fail.borrow().is_none() {
                                return Ok(());
                            }
                            CASE_CLOCK[w].store(now_ms(), Ordering::SeqCst);
                            note_current_case(w, p.id(), &case);
                            let out = p.check(&case);
                            CASE_CLOCK[w].store(0, Ordering::SeqCst);
                            let shrinking = first_fail.borrow().is_some();
                            if !shrinking {
                                local.borrow_mut().record(&case, &out, 2);
                            }
                            if let Some(f) = out.fail {
                                if open.contains(&f.key) {
                                    if !shrinking {
                                        *local.borrow_mut().known_hits.entry(f.key.clone()).or_insert(0) += 1;
                                    }
                                    return Ok(());
                                }
                                let mut ff = first_fail.borrow_mut();
                                match &*ff {
                                    None => {
                                        *ff = Some(f.clone());
                                        return Err(TestCaseError::fail(f.key));
                                    }
                                    Some(orig) => {
                                        if orig.key == f.key {
                                            *ff = Some(f.clone());
                                            return Err(TestCaseError::fail(f.key));
                                        }
                                        return Ok(());
                                    }
                                }
                            }
                            Ok(())
                        });
                        match res {
                            Ok(()) => {}
                            Err(TestError::Fail(_reason, case)) => {
                                // re-run the minimal case to get its detail
                                let out = p.check(&case);
                                let orig = first_fail.borrow().clone();
                                let f = match (out.fail, orig) {
                                    // the re-run must show the failure that was shrunk, not another (e.g. a known) one
                                    (Some(f), Some(o)) if f.key == o.key => f,
                                    (_, Some(o)) => o,
                                    (Some(f), None) => f,
                                    (None, None) => Fail::new("unknown", "failure did not reproduce on re-run"),
                                };
                                let path = write_replay(p.id(), &f, &case);
                                let mut v = violation.lock().unwrap();
                                if v.is_none() {
                                    *v = Some((f, serde_json::to_value(&case).unwrap_or(Value::Null), path));
                                }
                                stop.store(true, Ordering::SeqCst);
                            }
                            Err(TestError::Abort(reason)) => {
                                local
                                    .borrow_mut()
                                    .labels
                                    .insert(format!("ABORT:{}", reason), 1);
                            }
                        }
                        merge_stats(&stats, local.into_inner());
                    })
                    .unwrap(),
            );
        }
        for h in hs {
            let _ = h.join();
        }
    }
    done.store(true, Ordering::SeqCst);

    let st = std::mem::take(&mut *stats.lock().unwrap());
    part.evaluations = st.evaluations;
    part.enumerated = st.enumerated;
    part.distinct_nontrivial = st.nontrivial.len() as u64;
    part.sub_evals = st.sub_evals;
    part.sub_nontrivial = st.sub_nontrivial;
    part.labels = st.labels.clone();
    part.known_findings_hit = st.known_hits.clone();
    let mut samples = st.nontrivial_samples.clone();
    samples.truncate(5);
    if samples.len() < 5 {
        samples.extend(st.samples.iter().take(1).cloned());
    }
    part.samples = samples;
    for (label, floor) in p.label_floors() {
        let n = *st.labels.get(label).unwrap_or(&0) as f64;
        if st.evaluations > 0 && n / (st.evaluations as f64) < floor {
            part.health.push(format!(
                "GENERATOR-HEALTH label '{}' at {:.2}% below floor {:.2}%",
                label,
                100.0 * n / st.evaluations as f64,
                100.0 * floor
            ));
        }
    }
    for (k, _) in st.labels.iter().filter(|(k, _)| k.starts_with("ABORT:")) {
        part.inconclusive.push(k.clone());
    }
    if let Some((f, _case, path)) = violation.lock().unwrap().take() {
        let line = format!("VIOLATION property={} replay={} key={}", id, path.display(), f.key);
        println!("{}", line);
        println!("  detail: {}", f.detail);
        part.violations.push(line);
    }
    part.extra = p.extra_coverage();
    part.wall_s = t0.elapsed().as_secs_f64();
    if let Some(out) = &args.part_out {
        let _ = std::fs::write(out, serde_json::to_string(&part).unwrap());
    }
    part
}

fn merge_stats(stats: &Arc<Mutex<Stats>>, local: Stats) {
    let mut s = stats.lock().unwrap();
    s.evaluations += local.evaluations;
    s.enumerated += local.enumerated;
    // sub-execution counts of cases whose fingerprint another worker already contributed are dropped
    for fp in &local.nontrivial {
        let _ = fp;
    }
    s.sub_evals += local.sub_evals;
    s.sub_nontrivial += local.sub_nontrivial;
    s.nontrivial.extend(local.nontrivial);
    for (k, v) in local.labels {
        *s.labels.entry(k).or_insert(0) += v;
    }
    for (k, v) in local.known_hits {
        *s.known_hits.entry(k).or_insert(0) += v;
    }
    for x in local.samples {
        if s.samples.len() < 2 {
            s.samples.push(x);
        }
    }
    for x in local.nontrivial_samples {
        if s.nontrivial_samples.len() < 6 {
            s.nontrivial_samples.push(x);
        }
    }
}

/// Merge the parts (one per build profile) into the evidence file; returns the exit code.
pub fn write_evidence<P: Prop>(p: &P, tier: Tier, seed: u64, parts: &[Part], wall_s: f64) -> i32 {
    let id = p.id();
    let sub: u64 = parts.iter().map(|x| x.sub_evals).sum();
    let cases: u64 = parts.iter().map(|x| x.evaluations).sum();
    // fault enumeration (C13): a case is a history, what is evaluated are its kills. Elsewhere sub-executions
    // (injected failures of C12 / C18) come on top of the cases.
    let sub_only = p.level() == "fault_enumeration";
    let evaluations: u64 = if sub_only && sub > 0 { sub } else { cases + sub };
    let distinct: u64 = if sub_only && sub > 0 {
        parts.iter().map(|x| x.sub_nontrivial).max().unwrap_or(0)
    } else {
        parts.iter().map(|x| x.distinct_nontrivial).max().unwrap_or(0)
    };
    let mut samples: Vec<Value> = Vec::new();
    for part in parts {
        for s in &part.samples {
            if samples.len() < 6 {
                samples.push(s.clone());
            }
        }
    }
    if samples.is_empty() {
        samples.push(json!("(no case was generated)"));
    }
    let violations: usize = parts.iter().map(|x| x.violations.len()).sum();
    let mut by_profile = Map::new();
    for part in parts {
        let _ = by_profile.insert(
            part.profile.clone(),
            json!({
                "evaluations": part.evaluations,
                "of_which_enumerated": part.enumerated,
                "distinct_nontrivial": part.distinct_nontrivial,
                "labels": part.labels,
                "known_findings_hit": part.known_findings_hit,
                "regression_files_replayed": part.regression_replayed,
                "generator_health": part.health,
                "wall_s": part.wall_s,
                "extra": part.extra,
            }),
        );
    }
    let mut coverage = Map::new();
    let _ = coverage.insert("evaluations".into(), json!(evaluations));
    let _ = coverage.insert("distinct_nontrivial".into(), json!(distinct));
    let _ = coverage.insert(
        "rule".into(),
        json!(format!(
            "{} {}",
            p.rule(),
            if sub > 0 {
                "evaluations counts the sub-executions (one per injected fault); distinct_nontrivial counts the non-trivial sub-executions of cases whose fingerprint (hash of the serialised case) had not been seen before, so (case, fault) pairs are distinct; generated_cases / distinct_nontrivial_cases give the numbers of generated histories."
            } else {
                "distinct_nontrivial is the number of distinct fingerprints (hash of the serialised case) among non-trivial cases, taken as the maximum over the build profiles (the profiles run different random cases, so this is conservative)."
            }
        )),
    );
    if sub > 0 {
        let _ = coverage.insert("generated_cases".into(), json!(cases));
        let _ = coverage.insert("distinct_nontrivial_cases".into(), json!(parts.iter().map(|x| x.distinct_nontrivial).max().unwrap_or(0)));
    }
    let _ = coverage.insert("samples".into(), Value::Array(samples));
    let _ = coverage.insert("by_profile".into(), Value::Object(by_profile));
    let subs = p.enumerated_subspaces(tier);
    if !subs.is_empty() {
        let _ = coverage.insert("exhaustively_enumerated_subspaces".into(), json!(subs));
    }
    let _ = coverage.insert("exhaustive".into(), json!(false));
    // statistics of the coverage-guided campaign that ran just before (thorough tier only)
    let fuzz_part = root().join("out").join("parts").join(format!("fuzz-{}.json", id));
    if tier == Tier::Thorough {
        if let Some(v) = std::fs::read_to_string(&fuzz_part).ok().and_then(|t| serde_json::from_str::<Value>(&t).ok()) {
            let _ = coverage.insert("fuzz_campaign".into(), v);
        }
    }
    let _ = std::fs::remove_file(&fuzz_part);
    let kf: Vec<String> = parts.iter().flat_map(|x| x.known_finding_lines.clone()).collect();
    let _ = coverage.insert("known_finding_lines".into(), json!(kf));
    let inconclusive: Vec<String> = parts.iter().flat_map(|x| x.inconclusive.clone()).collect();
    if !inconclusive.is_empty() {
        let _ = coverage.insert("inconclusive".into(), json!(inconclusive));
    }
    let ev = json!({
        "property_id": id,
        "tier": tier.name(),
        "seed": seed,
        "level": p.level(),
        "coverage": Value::Object(coverage),
        "assumptions": p.assumptions(),
        "wall_s": wall_s,
        "violations": violations,
    });
    let dir = root().join("evidence");
    let _ = std::fs::create_dir_all(&dir);
    let _ = std::fs::write(dir.join(format!("{}.json", id)), serde_json::to_string_pretty(&ev).unwrap());
    println!(
        "{} {} seed={} evaluations={} distinct_nontrivial={} violations={} wall={:.1}s",
        id,
        tier.name(),
        seed,
        evaluations,
        distinct,
        violations,
        wall_s
    );
    for part in parts {
        for h in &part.health {
            println!("  [{}] {}", part.profile, h);
        }
    }
    if violations > 0 {
        1
    } else if !inconclusive.is_empty() {
        2
    } else {
        0
    }
}

/// Replay one file, strictly. Returns exit code.
pub fn replay_one<P: Prop>(p: &P, path: &Path) -> i32 {
    let text = match std::fs::read_to_string(path) {
        Ok(t) => t,
        Err(e) => {
            eprintln!("cannot read {}: {}", path.display(), e);
            return 2;
        }
    };
    let case: P::Case = match serde_json::from_str::<ReplayFile>(&text) {
        Ok(rf) => match serde_json::from_value(rf.case) {
            Ok(c) => c,
            Err(e) => {
                eprintln!("replay file case does not deserialise: {e}");
                return 2;
            }
        },
        Err(_) => match serde_json::from_str::<P::Case>(&text) {
            Ok(c) => c,
            Err(e) => {
                eprintln!("not a replay file: {e}");
                return 2;
            }
        },
    };
    let known = load_known();
    let open = open_keys(&known, p.id());
    install_crash_capture(p.id());
    note_current_case(0, p.id(), &case);
    let out = p.check(&case);
    clear_current_case(0);
    println!("labels: {:?} nontrivial: {}", out.labels, out.nontrivial);
    match out.fail {
        None => {
            println!("PASS property={} replay={}", p.id(), path.display());
            0
        }
        Some(f) => {
            println!("  key: {}\n  detail: {}", f.key, f.detail);
            if open.contains(&f.key) {
                println!("KNOWN-FINDING: property={} key={}", p.id(), f.key);
                0
            } else {
                println!("VIOLATION property={} replay={} key={}", p.id(), path.display(), f.key);
                1
            }
        }
    }
}

/// Monotone index mapping (shrinks towards element 0).
pub fn pick<T: Clone>(pool: &[T], i: u16) -> T {
    let n = pool.len();
    let idx = ((i as usize) * n) >> 16;
    pool[idx.min(n - 1)].clone()
}

pub fn boxed<S: Strategy + 'static>(s: S) -> BoxedStrategy<S::Value> {
    s.boxed()
}
