use pvharness::engine::{self, *};
use pvharness::props;
use std::path::PathBuf;

fn usage() -> ! {
    eprintln!("usage: pvcheck run <Cnn> <quick|thorough> [--part-out FILE] [--cases N]\n       pvcheck replay <Cnn> <file>\n       pvcheck evidence <Cnn> <tier> <part.json>...");
    std::process::exit(2)
}

macro_rules! dispatch {
    ($id:expr, $f:ident, $($arg:expr),*) => {
        match $id {
            "C01" => $f(props::c01::C01, $($arg),*),
            "C02" => $f(props::c02::C02, $($arg),*),
            "C03" => $f(props::c03::C03, $($arg),*),
            "C04" => $f(props::c04::C04, $($arg),*),
            "C05" => $f(props::c05::C05, $($arg),*),
            "C06" => $f(props::c06::C06, $($arg),*),
            "C07" => $f(props::c07::C07, $($arg),*),
            "C08" => $f(props::c08::C08, $($arg),*),
            "C09" => $f(props::c09::C09, $($arg),*),
            "C10" => $f(props::c10::C10, $($arg),*),
            "C11" => $f(props::c11::C11, $($arg),*),
            "C12" => $f(props::c12::C12, $($arg),*),
            "C13" => $f(props::c13::C13, $($arg),*),
            "C14" => $f(props::c14::C14, $($arg),*),
            "C15" => $f(props::c15::C15, $($arg),*),
            "C16" => $f(props::c16::C16, $($arg),*),
            "C17" => $f(props::c17::C17, $($arg),*),
            "C18" => $f(props::c18::C18, $($arg),*),
            "C19" => $f(props::c19::C19, $($arg),*),
            "C20" => $f(props::c20::C20, $($arg),*),
            _ => { eprintln!("unknown property {}", $id); std::process::exit(2) }
        }
    };
}

fn do_run<P: Prop>(p: P, args: &RunArgs, also: Option<String>) -> i32 {
    let t0 = std::time::Instant::now();
    let id = p.id();
    let mut parts = Vec::new();
    // the other build profile, as a child process
    let mut child = None;
    if let Some(bin) = also {
        let out = root().join("out").join("parts");
        let _ = std::fs::create_dir_all(&out);
        let pf = out.join(format!("{}-{}-other.json", id, std::process::id()));
        let _ = std::fs::remove_file(&pf);
        let c = std::process::Command::new(bin)
            .args(["run", id, args.tier.name(), "--part-out"])
            .arg(&pf)
            .env("VERIF_SEED", args.seed.to_string())
            .spawn();
        match c {
            Ok(c) => child = Some((c, pf)),
            Err(e) => {
                println!("INCONCLUSIVE property={} cannot start the second-profile binary: {}", id, e);
                return 2;
            }
        }
    }
    let part = run_prop_ref(&p, args);
    parts.push(part);
    let mut rc_child = 0;
    if let Some((mut c, pf)) = child {
        let st = c.wait();
        rc_child = st.ok().and_then(|s| s.code()).unwrap_or(2);
        match std::fs::read_to_string(&pf).ok().and_then(|t| serde_json::from_str::<Part>(&t).ok()) {
            Some(pt) => parts.push(pt),
            None => {
                println!("INCONCLUSIVE property={} second-profile run left no result (exit {})", id, rc_child);
                return 2;
            }
        }
        let _ = std::fs::remove_file(&pf);
    }
    if args.part_out.is_some() {
        // child mode: the parent writes the evidence
        let v: usize = parts.iter().map(|x| x.violations.len()).sum();
        return if v > 0 { 1 } else if parts.iter().any(|x| !x.inconclusive.is_empty()) { 2 } else { 0 };
    }
    let rc = write_evidence(&p, args.tier, args.seed, &parts, t0.elapsed().as_secs_f64());
    if rc == 0 && rc_child == 2 {
        2
    } else {
        rc
    }
}

fn run_prop_ref<P: Prop>(p: &P, args: &RunArgs) -> Part {
    // run_prop wants ownership for Arc; properties are zero-sized, so rebuild through a shim
    engine::run_prop_shared(p, args)
}

fn do_replay<P: Prop>(p: P, path: &PathBuf) -> i32 {
    replay_one(&p, path)
}

fn main() {
    install_panic_hook();
    let a: Vec<String> = std::env::args().collect();
    if a.len() < 3 {
        usage();
    }
    let seed: u64 = std::env::var("VERIF_SEED").ok().and_then(|s| s.parse().ok()).unwrap_or(1);
    match a[1].as_str() {
        "run" => {
            if a.len() < 4 {
                usage();
            }
            let tier = match a[3].as_str() {
                "quick" => Tier::Quick,
                "thorough" => Tier::Thorough,
                _ => usage(),
            };
            let mut part_out = None;
            let mut cases_override = None;
            let mut i = 4;
            while i < a.len() {
                match a[i].as_str() {
                    "--part-out" => {
                        part_out = Some(PathBuf::from(&a[i + 1]));
                        i += 2;
                    }
                    "--cases" => {
                        cases_override = a[i + 1].parse().ok();
                        i += 2;
                    }
                    _ => usage(),
                }
            }
            let args = RunArgs {
                tier,
                seed,
                part_out,
                cases_override,
            };
            let also = std::env::var("PV_ALSO_BIN").ok().filter(|s| !s.is_empty() && args.part_out.is_none());
            let id = a[2].as_str();
            let rc = dispatch!(id, do_run, &args, also);
            pvharness::dbx::remove_scratch();
            std::process::exit(rc);
        }
        "crash-child" => {
            std::process::exit(props::c13::child_main(&a[2..]));
        }
        "gen-corpus" => {
            // pvcheck gen-corpus <dir> [n]: seed inputs for the libFuzzer targets from the harness generators
            let dir = std::path::PathBuf::from(&a[2]);
            let n: usize = a.get(3).and_then(|s| s.parse().ok()).unwrap_or(200);
            use pvharness::props::c03::{corpus_texts, Target};
            for (name, targets) in [
                ("event_json", vec![Target::Event]),
                ("filter_json", vec![Target::Filter]),
                ("tags_json", vec![Target::Tags]),
                ("unescape", vec![Target::Unescape]),
                ("hexaddr", vec![Target::HexId, Target::HexSig, Target::Hll, Target::Addr]),
            ] {
                let d = dir.join(name);
                let _ = std::fs::create_dir_all(&d);
                let mut k = 0;
                for (ti, t) in targets.iter().enumerate() {
                    for text in corpus_texts(*t, n / targets.len(), seed + ti as u64) {
                        let mut text = text;
                        if name == "hexaddr" {
                            // first byte selects the entry point
                            text = [vec![match t { Target::HexId => 0u8, Target::HexPubkey => 1, Target::HexSig => 2, Target::Hll => 3, _ => 4 }], text[2..].to_vec()].concat();
                        }
                        let _ = std::fs::write(d.join(format!("gen-{k:04}")), text);
                        k += 1;
                    }
                }
                println!("{name}: {k} inputs");
            }
            std::process::exit(0);
        }
        "fuzz-one" => {
            // pvcheck fuzz-one <target> <file>...: the libFuzzer target's oracle on saved inputs (plain regression path)
            if a.len() < 4 {
                usage();
            }
            let known = load_known();
            let mut rc = 0;
            for file in &a[3..] {
                let data = match std::fs::read(file) {
                    Ok(d) => d,
                    Err(e) => {
                        eprintln!("cannot read {file}: {e}");
                        rc = rc.max(2);
                        continue;
                    }
                };
                for (prop, f) in pvharness::fuzzdec::run_target(&a[2], &data) {
                    if open_keys(&known, prop).contains(&f.key) {
                        println!("KNOWN-FINDING: property={} key={}", prop, f.key);
                    } else {
                        println!("VIOLATION property={} replay={} key={}", prop, file, f.key);
                        println!("  detail: {}", f.detail);
                        rc = 1;
                    }
                }
            }
            std::process::exit(rc);
        }
        "isolated" => {
            if a.len() < 4 {
                usage();
            }
            std::process::exit(props::c03::isolated_main(std::path::Path::new(&a[3])));
        }
        "replay" => {
            if a.len() < 4 {
                usage();
            }
            let path = PathBuf::from(&a[3]);
            let id = a[2].as_str();
            // a C03 case may kill the process: replay it in an isolated child
            std::env::set_var("PV_ISOLATE_ALL", "1");
            let rc = dispatch!(id, do_replay, &path);
            std::process::exit(rc);
        }
        _ => usage(),
    }
}
