//! C13 Killing the process at any instant leaves a consistent, reopenable store.
//!
//! Fault enumeration: each generated history is run in a child process that kills itself with
//! SIGKILL at its k-th named point (`pocket_db::verif::point`), for every k.

use crate::dbx::*;
use crate::engine::*;
use crate::model::*;
use proptest::prelude::*;
use serde::{Deserialize, Serialize};
use std::collections::{BTreeMap, BTreeSet};
use std::io::Write;
use std::path::{Path, PathBuf};
use std::sync::atomic::{AtomicU64, Ordering};
use std::sync::{Arc, Mutex};

#[derive(Clone, Debug, Serialize, Deserialize)]
pub struct Case {
    pub ops: Vec<Op>,
    /// start from a directory in which `prefix` of the ops has already been applied (by a child that
    /// exits normally), so that creation is not always the first thing that is interrupted
    pub prefix: u8,
    /// thorough tier: additional kills at random instants (delay in microseconds after the child starts)
    pub random_kills: Vec<u32>,
    /// kills at system-call boundaries (the child runs under ptrace): 0 = none, otherwise at most this many
    /// positions, spread evenly over the system calls the history makes (all of them if there are fewer)
    #[serde(default)]
    pub sys_kills: u16,
}

/// What the child executes: the universe of events and the concrete steps.
#[derive(Clone, Debug, Serialize, Deserialize)]
pub struct Script {
    pub events: Vec<MEvent>,
    pub steps: Vec<Concrete>,
}

pub struct C13;

pub static KILLS: AtomicU64 = AtomicU64::new(0);
pub static SYS_KILLS: AtomicU64 = AtomicU64::new(0);
pub static SYSCALLS_SEEN: AtomicU64 = AtomicU64::new(0);
static POINT_HIST: Mutex<BTreeMap<String, u64>> = Mutex::new(BTreeMap::new());
static SAMPLE_KILLS: Mutex<Vec<String>> = Mutex::new(Vec::new());

fn progress_path(dir: &Path) -> PathBuf {
    let mut s = dir.as_os_str().to_owned();
    s.push(".progress");
    PathBuf::from(s)
}

/// Child process entry: `pvcheck crash-child <script.json> <k> <dir> <from-step>`.
/// k = 0: run to the end and print every point passed ("P <step> <name>").
pub fn child_main(args: &[String]) -> i32 {
    let script: Script = match std::fs::read_to_string(&args[0]).ok().and_then(|t| serde_json::from_str(&t).ok()) {
        Some(s) => s,
        None => return 3,
    };
    let k: u64 = args[1].parse().unwrap_or(0);
    let dir = PathBuf::from(&args[2]);
    let from: usize = args.get(3).and_then(|s| s.parse().ok()).unwrap_or(0);
    let until: usize = args.get(4).and_then(|s| s.parse().ok()).unwrap_or(usize::MAX);
    let snap_out = args.get(5).map(|s| s == "snap").unwrap_or(false);
    // "snap@J": a snapshot right after step J (into <dir>.snap) and one after the last step (into <dir>.snap2)
    let snap_at: Option<usize> = args.get(5).and_then(|s| s.strip_prefix("snap@")).and_then(|s| s.parse().ok());
    if args.get(6).map(|s| s == "trace").unwrap_or(false) {
        // ask to be traced by the parent and wait for it (done here rather than in the parent's pre_exec, which
        // would make the parent fork() its whole address space instead of using the fast spawn path)
        unsafe {
            if libc::ptrace(libc::PTRACE_TRACEME, 0, 0, 0) < 0 {
                return 7;
            }
            let _ = libc::raise(libc::SIGSTOP);
        }
    }
    let counter = Arc::new(AtomicU64::new(0));
    let cur_step = Arc::new(AtomicU64::new(u64::MAX)); // u64::MAX = opening
    let log: Arc<Mutex<Vec<(u64, &'static str)>>> = Arc::new(Mutex::new(Vec::new()));
    {
        let (counter, cur_step, log) = (counter.clone(), cur_step.clone(), log.clone());
        pocket_db::verif::set_hook(Some(Arc::new(move |name: &'static str| {
            let n = counter.fetch_add(1, Ordering::SeqCst) + 1;
            if k == 0 {
                log.lock().unwrap().push((cur_step.load(Ordering::SeqCst), name));
            } else if n == k {
                unsafe {
                    let _ = libc::kill(libc::getpid(), libc::SIGKILL);
                }
                loop {
                    std::thread::sleep(std::time::Duration::from_secs(1));
                }
            }
        })));
    }
    let mut progress = std::fs::OpenOptions::new().create(true).append(true).open(progress_path(&dir)).ok();
    let mut note = |s: &str| {
        if let Some(f) = progress.as_mut() {
            let _ = f.write_all(s.as_bytes());
            let _ = f.flush();
        }
    };
    marker_syscall(1);
    let mut w = match World::at(Dir { tmp: None, p: dir.clone() }, 0) {
        Ok(w) => w,
        Err(f) => {
            println!("OPEN-FAILED {}", f.key);
            return 5;
        }
    };
    w.events = script.events.clone();
    w.owned = script.events.iter().map(|e| e.to_owned_event().unwrap()).collect();
    w.by_id = script.events.iter().enumerate().map(|(i, e)| (e.id.clone(), i)).collect();
    note("O\n");
    println!("READY");
    let _ = std::io::stdout().flush();
    for (i, st) in script.steps.iter().enumerate() {
        if i < from || i >= until {
            continue;
        }
        cur_step.store(i as u64, Ordering::SeqCst);
        marker_syscall(2);
        let step = w.apply(st);
        note(&format!("{} {}\n", i, step.res.class()));
        if snap_at == Some(i) {
            let text = match w.snapshot() {
                Ok(s) => serde_json::to_string(&s).unwrap_or_default(),
                Err(e) => format!("SNAPSHOT-ERROR {e}"),
            };
            let mut sp = dir.as_os_str().to_owned();
            sp.push(".snap");
            let _ = std::fs::write(PathBuf::from(sp), text);
        }
    }
    marker_syscall(3);
    if snap_at.is_some() {
        let text = match w.snapshot() {
            Ok(s) => serde_json::to_string(&s).unwrap_or_default(),
            Err(e) => format!("SNAPSHOT-ERROR {e}"),
        };
        let mut sp = dir.as_os_str().to_owned();
        sp.push(".snap2");
        let _ = std::fs::write(PathBuf::from(sp), text);
    }
    if snap_out {
        // fault-injection runs: what this very store object shows after the last step
        let text = match w.snapshot() {
            Ok(s) => serde_json::to_string(&s).unwrap_or_default(),
            Err(e) => format!("SNAPSHOT-ERROR {e}"),
        };
        let mut sp = dir.as_os_str().to_owned();
        sp.push(".snap");
        let _ = std::fs::write(PathBuf::from(sp), text);
    }
    pocket_db::verif::set_hook(None);
    if k == 0 {
        for (s, name) in log.lock().unwrap().iter() {
            println!("P {} {}", if *s == u64::MAX { -1 } else { *s as i64 }, name);
        }
    }
    println!("DONE {}", counter.load(Ordering::SeqCst));
    // leave without closing anything (as a killed process would), but flush stdout
    let _ = std::io::stdout().flush();
    0
}

fn write_script(dir: &Path, script: &Script) -> PathBuf {
    let p = dir.join("script.json");
    let _ = std::fs::write(&p, serde_json::to_string(script).unwrap());
    p
}

struct ChildRun {
    killed: bool,
    exit: Option<i32>,
    stdout: String,
}

fn run_child(script_path: &Path, k: u64, dir: &Path, from: usize, until: usize, kill_after_us: Option<u32>) -> Result<ChildRun, String> {
    use std::os::unix::process::ExitStatusExt;
    let exe = std::env::current_exe().map_err(|e| e.to_string())?;
    let mut cmd = std::process::Command::new(exe);
    let _ = cmd
        .arg("crash-child")
        .arg(script_path)
        .arg(k.to_string())
        .arg(dir)
        .arg(from.to_string())
        .arg(until.to_string())
        .stdout(std::process::Stdio::piped())
        .stderr(std::process::Stdio::null());
    let mut child = cmd.spawn().map_err(|e| e.to_string())?;
    if let Some(us) = kill_after_us {
        // wait for READY (the store is open), then kill after the given delay
        use std::io::Read;
        let mut so = child.stdout.take().unwrap();
        let mut buf = [0u8; 6];
        let _ = so.read(&mut buf);
        let t0 = std::time::Instant::now();
        while (t0.elapsed().as_micros() as u32) < us {
            std::hint::spin_loop();
        }
        let _ = child.kill();
        let st = child.wait().map_err(|e| e.to_string())?;
        return Ok(ChildRun { killed: st.signal().is_some(), exit: st.code(), stdout: String::new() });
    }
    let out = child.wait_with_output().map_err(|e| e.to_string())?;
    Ok(ChildRun {
        killed: out.status.signal() == Some(libc::SIGKILL),
        exit: out.status.code(),
        stdout: String::from_utf8_lossy(&out.stdout).to_string(),
    })
}

/// A system call that neither std, LMDB nor pocket make and that changes nothing: getpriority with an invalid
/// `which` fails with EINVAL. The tracing parent reads the code from the first argument:
/// 1 = the child starts opening the store, 2 = a step begins, 3 = the history is over.
const MARK_BASE: u64 = 0x5056_0000;
fn marker_syscall(code: u64) {
    unsafe {
        if code == 1 {
            // SIGURG is ignored by default, but a tracer is told about it: until then the tracer lets the child run
            // without stopping at its system calls (loader, reading the script)
            let _ = libc::raise(libc::SIGURG);
        }
        let _ = libc::syscall(libc::SYS_getpriority, MARK_BASE | code, 0u64);
    }
}

pub struct Traced {
    pub killed: bool,
    pub exit: Option<i32>,
    /// the system calls entered inside the window (dry run: all of them; kill run: up to the kill):
    /// (number, ordinal of the step being executed counted from the first executed one, -1 = while opening)
    pub syscalls: Vec<(i64, i64)>,
}

#[derive(Clone, Copy, Debug, PartialEq)]
pub enum TraceMode {
    Dry,
    /// SIGKILL when the child is about to enter its n-th system call of the window (1-based)
    KillAt(u64),
    /// the n-th system call of the window is not executed and returns -errno instead
    FailAt(u64, i32),
}

/// Runs the child under ptrace. The window starts at marker 1 and ends at marker 3. A kill happens at a
/// system-call entry stop, i.e. the call itself is not executed: the files are exactly as the previous call left
/// them, plus whatever the process wrote through its shared mappings since. An injected failure replaces the
/// call by an invalid one at its entry stop and overwrites the return value at its exit stop.
#[cfg(all(target_os = "linux", target_arch = "x86_64"))]
pub fn run_child_traced(script_path: &Path, dir: &Path, from: usize, until: usize, mode: TraceMode, snap: &str) -> Result<Traced, String> {
    const RAX: usize = 10 * 8;
    const RDI: usize = 14 * 8;
    const ORIG_RAX: usize = 15 * 8;
    let exe = std::env::current_exe().map_err(|e| e.to_string())?;
    let mut cmd = std::process::Command::new(exe);
    let _ = cmd
        .arg("crash-child")
        .arg(script_path)
        .arg("0")
        .arg(dir)
        .arg(from.to_string())
        .arg(until.to_string())
        .arg(if snap.is_empty() { "-" } else { snap })
        .arg("trace")
        .stdout(std::process::Stdio::null())
        .stderr(std::process::Stdio::null());
    let child = cmd.spawn().map_err(|e| format!("spawn: {e}"))?;
    let pid = child.id() as libc::pid_t;
    let mut status: libc::c_int = 0;
    let wait = |status: &mut libc::c_int| -> Result<(), String> {
        loop {
            let r = unsafe { libc::waitpid(pid, status as *mut _, libc::__WALL) };
            if r == pid {
                return Ok(());
            }
            let e = std::io::Error::last_os_error();
            if e.kind() != std::io::ErrorKind::Interrupted {
                return Err(format!("waitpid: {e}"));
            }
        }
    };
    let give_up = |status: &mut libc::c_int, what: String| -> Result<Traced, String> {
        unsafe {
            let _ = libc::kill(pid, libc::SIGKILL);
        }
        let _ = wait(status);
        Err(what)
    };
    wait(&mut status)?;
    if !libc::WIFSTOPPED(status) {
        // exit code 7: PTRACE_TRACEME was refused
        return Err(format!("traced child did not stop after asking to be traced (status {status:#x})"));
    }
    let opts = libc::PTRACE_O_TRACESYSGOOD | libc::PTRACE_O_EXITKILL;
    if unsafe { libc::ptrace(libc::PTRACE_SETOPTIONS, pid, 0, opts) } < 0 {
        let e = std::io::Error::last_os_error();
        return give_up(&mut status, format!("PTRACE_SETOPTIONS: {e}"));
    }
    let mut in_window = false;
    let mut step: i64 = -1;
    let mut syscalls: Vec<(i64, i64)> = Vec::new();
    let mut deliver: libc::c_int = 0;
    let mut pending_errno: Option<i32> = None;
    // before the child announces the window (SIGURG) and after the window it runs without system-call stops
    let mut stepping = false;
    loop {
        let req = if stepping { libc::PTRACE_SYSCALL } else { libc::PTRACE_CONT };
        if unsafe { libc::ptrace(req, pid, 0, deliver as libc::c_long) } < 0 {
            let e = std::io::Error::last_os_error();
            return give_up(&mut status, format!("PTRACE_SYSCALL: {e}"));
        }
        deliver = 0;
        wait(&mut status)?;
        if libc::WIFEXITED(status) {
            return Ok(Traced { killed: false, exit: Some(libc::WEXITSTATUS(status)), syscalls });
        }
        if libc::WIFSIGNALED(status) {
            return Ok(Traced { killed: libc::WTERMSIG(status) == libc::SIGKILL, exit: None, syscalls });
        }
        if !libc::WIFSTOPPED(status) {
            continue;
        }
        let sig = libc::WSTOPSIG(status);
        if sig == (libc::SIGTRAP | 0x80) {
            if let Some(errno) = pending_errno.take() {
                // exit stop of the call that was suppressed
                if unsafe { libc::ptrace(libc::PTRACE_POKEUSER, pid, RAX, -(errno as libc::c_long)) } < 0 {
                    let e = std::io::Error::last_os_error();
                    return give_up(&mut status, format!("PTRACE_POKEUSER rax: {e}"));
                }
                continue;
            }
            // entry stops have rax = -ENOSYS
            let rax = unsafe { libc::ptrace(libc::PTRACE_PEEKUSER, pid, RAX, 0) };
            if rax != -(libc::ENOSYS as libc::c_long) {
                continue;
            }
            let nr = unsafe { libc::ptrace(libc::PTRACE_PEEKUSER, pid, ORIG_RAX, 0) } as i64;
            if nr == libc::SYS_getpriority as i64 {
                let rdi = unsafe { libc::ptrace(libc::PTRACE_PEEKUSER, pid, RDI, 0) } as u64;
                if rdi & 0xffff_0000 == MARK_BASE {
                    match rdi & 0xffff {
                        1 => in_window = true,
                        2 => step += 1,
                        _ => {
                            in_window = false;
                            stepping = false;
                        }
                    }
                    continue;
                }
            }
            if in_window {
                syscalls.push((nr, step));
                let n = syscalls.len() as u64;
                match mode {
                    TraceMode::KillAt(k) if n == k => {
                        unsafe {
                            let _ = libc::kill(pid, libc::SIGKILL);
                        }
                        wait(&mut status)?;
                        // a tracee killed in a stop may report one more stop before it dies
                        while libc::WIFSTOPPED(status) {
                            wait(&mut status)?;
                        }
                        return Ok(Traced { killed: libc::WIFSIGNALED(status), exit: None, syscalls });
                    }
                    TraceMode::FailAt(k, errno) if n == k => {
                        if unsafe { libc::ptrace(libc::PTRACE_POKEUSER, pid, ORIG_RAX, -1 as libc::c_long) } < 0 {
                            let e = std::io::Error::last_os_error();
                            return give_up(&mut status, format!("PTRACE_POKEUSER orig_rax: {e}"));
                        }
                        pending_errno = Some(errno);
                    }
                    _ => {}
                }
            }
        } else if sig == libc::SIGTRAP {
            // exec / event stops: not forwarded
        } else if sig == libc::SIGURG && !stepping && !in_window {
            stepping = true;
        } else {
            deliver = sig;
        }
    }
}

#[cfg(not(all(target_os = "linux", target_arch = "x86_64")))]
pub fn run_child_traced(_: &Path, _: &Path, _: usize, _: usize, _: TraceMode, _: &str) -> Result<Traced, String> {
    Err("system-call tracing is implemented for linux/x86_64 only".into())
}

pub fn syscall_name(nr: i64) -> String {
    let names: &[(i64, &str)] = &[
        (libc::SYS_read, "read"), (libc::SYS_write, "write"), (libc::SYS_open, "open"), (libc::SYS_openat, "openat"), (libc::SYS_close, "close"),
        (libc::SYS_fstat, "fstat"), (libc::SYS_newfstatat, "newfstatat"), (libc::SYS_statx, "statx"), (libc::SYS_lseek, "lseek"),
        (libc::SYS_mmap, "mmap"), (libc::SYS_munmap, "munmap"), (libc::SYS_mremap, "mremap"), (libc::SYS_msync, "msync"), (libc::SYS_mprotect, "mprotect"),
        (libc::SYS_pread64, "pread64"), (libc::SYS_pwrite64, "pwrite64"), (libc::SYS_pwritev, "pwritev"), (libc::SYS_writev, "writev"),
        (libc::SYS_ftruncate, "ftruncate"), (libc::SYS_fallocate, "fallocate"), (libc::SYS_fsync, "fsync"), (libc::SYS_fdatasync, "fdatasync"),
        (libc::SYS_fcntl, "fcntl"), (libc::SYS_flock, "flock"), (libc::SYS_mkdir, "mkdir"), (libc::SYS_mkdirat, "mkdirat"), (libc::SYS_rename, "rename"),
        (libc::SYS_renameat, "renameat"), (libc::SYS_renameat2, "renameat2"), (libc::SYS_unlink, "unlink"), (libc::SYS_unlinkat, "unlinkat"),
        (libc::SYS_futex, "futex"), (libc::SYS_brk, "brk"), (libc::SYS_madvise, "madvise"), (libc::SYS_getrandom, "getrandom"), (libc::SYS_getdents64, "getdents64"),
        (libc::SYS_clock_gettime, "clock_gettime"), (libc::SYS_fstatfs, "fstatfs"), (libc::SYS_readlink, "readlink"), (libc::SYS_getpid, "getpid"), (libc::SYS_access, "access"), (libc::SYS_ioctl, "ioctl"),
    ];
    names.iter().find(|(n, _)| *n == nr).map(|(_, s)| s.to_string()).unwrap_or_else(|| format!("sys_{nr}"))
}

fn copy_dir(from: &Path, to: &Path) -> std::io::Result<()> {
    std::fs::create_dir_all(to)?;
    for e in std::fs::read_dir(from)? {
        let e = e?;
        let p = e.path();
        let t = to.join(e.file_name());
        if p.is_dir() {
            copy_dir(&p, &t)?;
        } else {
            let _ = std::fs::copy(&p, &t)?;
        }
    }
    Ok(())
}

/// Which steps the progress file says completed; None = the child died before the store was open.
fn read_progress(dir: &Path) -> (bool, Vec<(usize, String)>) {
    let text = std::fs::read_to_string(progress_path(dir)).unwrap_or_default();
    let mut opened = false;
    let mut done = Vec::new();
    for l in text.lines() {
        if l == "O" {
            opened = true;
        } else {
            let mut it = l.split(' ');
            if let (Some(i), Some(c)) = (it.next().and_then(|x| x.parse().ok()), it.next()) {
                done.push((i, c.to_string()));
            }
        }
    }
    (opened, done)
}

fn retr_of(s: &BTreeMap<String, String>) -> BTreeSet<String> {
    s.iter().filter(|(k, v)| k.starts_with("has_event:") && *v == "true").map(|(k, _)| k.clone()).collect()
}

impl Prop for C13 {
    type Case = Case;
    fn id(&self) -> &'static str {
        "C13"
    }
    fn level(&self) -> &'static str {
        "fault_enumeration"
    }
    fn rule(&self) -> String {
        "Fault model: process death by SIGKILL (page cache survives), at every named point compiled in with the 'verif' feature along store creation/opening (directory created, lmdb directory created, event map opened / sized / mapped, index opened) and along store_event / remove_event / vanish (transaction open, after the checks, after pre-removal, after alignment padding, mid-copy of the event bytes, copied but end marker not yet moved, appended, file grown, map remapped, indexed, per deletion tag, before commit, committed). Cases: a history of 1..8 (thorough 1..16) operations (stores incl. replacing, deleting and file-growing ones, removes, vanishes), optionally with a prefix already applied; a dry run in a child process counts the M points passed; then EVERY k in 1..=M is executed in a fresh child on a fresh copy of the starting directory, the child killing itself with SIGKILL at its k-th point (the thorough tier adds kills at random instants sent by the parent). For every third history the child is additionally run under ptrace and killed at the entry of EVERY system call it makes between starting to open the store and the end of the history (mkdir, openat, ftruncate, pwrite64, writev, mremap, msync, fcntl, ...: 50-110 per history), i.e. at every instant at which the files can differ, independently of where the named points were placed. Oracle per kill: Store::new on the directory succeeds; the full snapshot (see C12) equals the reference snapshot before or after the interrupted operation (vanish: retrievable set between the two, everything else equal to the state before); every retrievable event is byte-identical; then the remaining operations are applied and every result class and the final snapshot equal the uninterrupted reference run. evaluations = kills executed; non-trivial = kill strictly inside an operation that changes state (not at its first or last point); distinct by (history fingerprint, k).".into()
    }
    fn assumptions(&self) -> Vec<String> {
        vec![
            "Process death, not power loss: what the kernel has in its page cache survives (LMDB runs with NO_SYNC).".into(),
            "Instants between two named points are equivalent to one of them for the code under test, except inside LMDB's commit and inside memcpy; the mid-copy point, the system-call-boundary kills (which stop between the individual writes of an LMDB commit) and the thorough tier's random-instant kills cover those.".into(),
            "The reference run and the recovered run may place events at different offsets (orphan bytes); snapshots do not contain offsets.".into(),
        ]
    }
    fn cases(&self, tier: Tier) -> u32 {
        tier.pick(240, 6_000)
    }
    fn workers(&self, _tier: Tier) -> usize {
        16
    }
    fn release_fraction(&self, tier: Tier) -> f64 {
        tier.pick(0.2, 0.5)
    }
    fn max_shrink_iters(&self) -> u32 {
        60
    }
    fn strategy(&self, tier: Tier) -> BoxedStrategy<Case> {
        let w = OpWeights {
            store: 10,
            resubmit: 1,
            version: 5,
            remove: 3,
            delete_req: 2,
            delete_own: 3,
            vanish: 2,
            reopen: 0,
            rebuild: 0,
            extra: 0,
            pressure: 0,
            mass_delete: 0,
            big: 0,
        };
        let cfg = EvCfg {
            authors: 2,
            kind_weights: [3, 2, 3, 1, 1],
            max_tags: 2,
            extreme_ids: false,
            tag_values: 0,
            tag_names: 0,
            narrow: false,
        };
        let n_random = tier.pick(0usize, 12);
        (
            prop::collection::vec(op_strategy(w, cfg), 1..=tier.pick(8, 16)),
            prop_oneof![2 => Just(0u8), 1 => 1u8..6],
            prop::collection::vec(0u32..3000, n_random..=n_random),
            prop_oneof![2 => Just(0u16), 1 => Just(tier.pick(400u16, 2000u16))],
        )
            .prop_map(|(ops, prefix, random_kills, sys_kills)| Case { ops, prefix, random_kills, sys_kills })
            .boxed()
    }
    fn extra_coverage(&self) -> serde_json::Map<String, serde_json::Value> {
        let mut m = serde_json::Map::new();
        let _ = m.insert("kills_executed".into(), serde_json::json!(KILLS.load(Ordering::SeqCst)));
        let _ = m.insert("kills_at_syscall_boundaries".into(), serde_json::json!(SYS_KILLS.load(Ordering::SeqCst)));
        let _ = m.insert("max_syscalls_in_one_history".into(), serde_json::json!(SYSCALLS_SEEN.load(Ordering::SeqCst)));
        let _ = m.insert("kills_by_point".into(), serde_json::json!(*POINT_HIST.lock().unwrap()));
        let _ = m.insert("sample_kills".into(), serde_json::json!(*SAMPLE_KILLS.lock().unwrap()));
        m
    }
    fn check(&self, c: &Case) -> Outcome {
        let mut out = Outcome::default();
        // ---- reference run (in process), recording the concrete steps and the universe
        let mut refw = match World::new(0) {
            Ok(w) => w,
            Err(f) => {
                out.fail(format!("C13:{}", f.key), f.detail);
                return out;
            }
        };
        let mut steps: Vec<Concrete> = Vec::new();
        let mut ref_res: Vec<Res> = Vec::new();
        for op in &c.ops {
            let Some(conc) = refw.concretise(op) else { continue };
            let st = refw.apply(&conc);
            if let Res::Panic(k) = &st.res {
                out.fail(format!("C13:{k}"), "reference run panicked");
                return out;
            }
            steps.push(conc);
            ref_res.push(st.res);
        }
        if steps.is_empty() {
            return out;
        }
        let script = Script { events: refw.events.clone(), steps: steps.clone() };
        // reference snapshots with the full universe: replay on a second world that knows every event from the start
        let mut snapw = match World::new(0) {
            Ok(w) => w,
            Err(f) => {
                out.fail(format!("C13:{}", f.key), f.detail);
                return out;
            }
        };
        snapw.events = refw.events.clone();
        snapw.owned = script.events.iter().map(|e| e.to_owned_event().unwrap()).collect();
        snapw.by_id = refw.by_id.clone();
        let mut snaps: Vec<BTreeMap<String, String>> = Vec::new();
        match snapw.snapshot() {
            Ok(s) => snaps.push(s),
            Err(e) => {
                out.fail(format!("C13:reference-snapshot-error:{e}"), "");
                return out;
            }
        }
        for (i, st) in steps.iter().enumerate() {
            let r = snapw.apply(st);
            if r.res.class() != ref_res[i].class() {
                out.fail("C13:harness:reference-not-deterministic", format!("step {i}: {:?} vs {:?}", r.res, ref_res[i]));
                return out;
            }
            match snapw.snapshot() {
                Ok(s) => snaps.push(s),
                Err(e) => {
                    out.fail(format!("C13:reference-snapshot-error:{e}"), format!("step {i}"));
                    return out;
                }
            }
        }
        drop(snapw);
        drop(refw);

        // ---- working area
        let area = match tempfile::Builder::new().prefix("c13").tempdir_in(scratch_base()) {
            Ok(d) => d,
            Err(e) => {
                out.fail("C13:harness:tempdir", e.to_string());
                return out;
            }
        };
        let script_path = write_script(area.path(), &script);
        let prefix = (c.prefix as usize).min(steps.len().saturating_sub(1));
        // starting directory: `prefix` steps applied by a child that exits normally
        let start = area.path().join("start");
        if prefix > 0 {
            match run_child(&script_path, 0, &start, 0, prefix, None) {
                Ok(r) if r.exit == Some(0) => {}
                Ok(r) => {
                    out.fail("C13:harness:prefix-child-failed", format!("exit {:?} killed {} out {}", r.exit, r.killed, r.stdout));
                    return out;
                }
                Err(e) => {
                    out.fail("C13:harness:spawn", e);
                    return out;
                }
            }
            out.label("prepared-directory");
        } else {
            out.label("from-empty-directory");
        }
        // ---- dry run: count the points
        let dry = area.path().join("dry");
        if prefix > 0 {
            let _ = copy_dir(&start, &dry);
            let _ = std::fs::copy(progress_path(&start), progress_path(&dry));
        }
        let dryrun = match run_child(&script_path, 0, &dry, prefix, usize::MAX, None) {
            Ok(r) if r.exit == Some(0) => r,
            Ok(r) => {
                out.fail("C13:harness:dry-run-failed", format!("exit {:?} killed {} out {}", r.exit, r.killed, r.stdout));
                return out;
            }
            Err(e) => {
                out.fail("C13:harness:spawn", e);
                return out;
            }
        };
        let points: Vec<(i64, String)> = dryrun
            .stdout
            .lines()
            .filter_map(|l| l.strip_prefix("P "))
            .filter_map(|l| {
                let mut it = l.split(' ');
                Some((it.next()?.parse().ok()?, it.next()?.to_string()))
            })
            .collect();
        let m = points.len() as u64;
        if m == 0 {
            out.fail("C13:harness:no-points", "the dry run passed no named point (is the verif feature on?)");
            return out;
        }
        // first / last point index of each step
        let mut first_last: BTreeMap<i64, (usize, usize)> = BTreeMap::new();
        for (i, (s, _)) in points.iter().enumerate() {
            let e = first_last.entry(*s).or_insert((i, i));
            e.1 = i;
        }
        let universe_ids: Vec<String> = script.events.iter().map(|e| e.id.clone()).collect();
        let _ = universe_ids;

        // ---- the kills
        let mut plan: Vec<(u64, Option<u32>, u64)> = (1..=m).map(|k| (k, None, 0)).collect();
        for us in &c.random_kills {
            plan.push((0, Some(*us), 0));
        }
        // kills at system-call boundaries: a traced dry run lists the calls made between opening the store and the
        // end of the history
        let mut sys_calls: Vec<i64> = Vec::new();
        if c.sys_kills > 0 {
            let sdry = area.path().join("sysdry");
            if prefix > 0 {
                let _ = copy_dir(&start, &sdry);
                let _ = std::fs::copy(progress_path(&start), progress_path(&sdry));
            }
            match run_child_traced(&script_path, &sdry, prefix, usize::MAX, TraceMode::Dry, "") {
                Ok(t) if t.exit == Some(0) => sys_calls = t.syscalls.iter().map(|x| x.0).collect(),
                Ok(t) => {
                                        out.label(format!("skipped:traced dry run exit {:?} killed {}", t.exit, t.killed));
                }
                Err(e) => {
                                        out.label(format!("skipped:tracing unavailable:{}", &e[..e.len().min(60)]));
                }
            }
            let _ = std::fs::remove_dir_all(&sdry);
            let _ = std::fs::remove_file(progress_path(&sdry));
            let ms = sys_calls.len() as u64;
            let n = (c.sys_kills as u64).min(ms);
            for i in 1..=n {
                plan.push((0, None, (i * ms + n - 1) / n));
            }
            if ms > 0 {
                out.label("syscall-kill-history");
                let _ = SYSCALLS_SEEN.fetch_max(ms, Ordering::SeqCst);
            }
        }
        for (k, random_us, sys) in plan {
            let dir = area.path().join(format!("k{}_{}_{}", k, random_us.unwrap_or(0), sys));
            if prefix > 0 {
                if copy_dir(&start, &dir).is_err() {
                    continue;
                }
                let _ = std::fs::copy(progress_path(&start), progress_path(&dir));
            }
            let run = if sys > 0 {
                match run_child_traced(&script_path, &dir, prefix, usize::MAX, TraceMode::KillAt(sys), "") {
                    Ok(t) => ChildRun { killed: t.killed, exit: t.exit, stdout: String::new() },
                    Err(e) => {
                                                out.label(format!("skipped:tracing unavailable:{}", &e[..e.len().min(60)]));
                        let _ = std::fs::remove_dir_all(&dir);
                        let _ = std::fs::remove_file(progress_path(&dir));
                        continue;
                    }
                }
            } else {
                match run_child(&script_path, k, &dir, prefix, usize::MAX, random_us) {
                    Ok(r) => r,
                    Err(e) => {
                        out.fail("C13:harness:spawn", e);
                        return out;
                    }
                }
            };
            let _ = KILLS.fetch_add(1, Ordering::SeqCst);
            out.sub_evals += 1;
            let (pstep, pname) = if k >= 1 {
                points[(k - 1) as usize].clone()
            } else if sys > 0 {
                (-2, format!("syscall:{}", syscall_name(sys_calls[(sys - 1) as usize])))
            } else {
                (-2, "random-instant".to_string())
            };
            *POINT_HIST.lock().unwrap().entry(pname.clone()).or_insert(0) += 1;
            {
                let mut sk = SAMPLE_KILLS.lock().unwrap();
                if (sk.len() < 6 && (k % 7 == 3 || random_us.is_some())) || (sk.len() < 12 && sys > 0 && sys % 5 == 2) {
                    sk.push(format!("SIGKILL at point {k}/{m} '{pname}' inside step {pstep} {:?} of a {}-step history (prefix of {prefix} steps applied beforehand)", if pstep >= 0 { steps.get(pstep as usize) } else { None }, steps.len()));
                }
            }
            if k >= 1 && !run.killed {
                out.fail("C13:harness:child-not-killed", format!("k={k}/{m} exit {:?} out {}", run.exit, run.stdout));
                return out;
            }
            if random_us.is_some() {
                out.label(if run.killed { "random-instant-kill" } else { "random-kill-too-late" });
            }
            let (opened, done) = read_progress(&dir);
            let done_steps: Vec<usize> = done.iter().map(|(i, _)| *i).collect();
            let j = done_steps.last().map(|x| x + 1).unwrap_or(prefix); // interrupted step (or beyond the end)
            if sys > 0 {
                out.label(if run.killed { "syscall-boundary-kill" } else { "syscall-kill-too-late" });
                let _ = SYS_KILLS.fetch_add(1, Ordering::SeqCst);
                let changes = j < steps.len() && snaps.get(j) != snaps.get(j + 1);
                if run.killed && (changes || !opened) {
                    out.sub_nontrivial += 1;
                    out.nontrivial = true;
                }
            }
            if k >= 1 {
                let inside = first_last.get(&pstep).map(|(a, b)| (k as usize - 1) > *a && (k as usize - 1) < *b).unwrap_or(false);
                let changes = pstep >= 0 && snaps.get(pstep as usize) != snaps.get(pstep as usize + 1);
                if inside && (changes || pstep < 0) {
                    out.sub_nontrivial += 1;
                    out.nontrivial = true;
                }
            }
            // ---- reopen
            let mut w = match World::at(Dir { tmp: None, p: dir.clone() }, 0) {
                Ok(w) => w,
                Err(f) => {
                    out.fail(
                        format!("C13:reopen-failed:{}:{}", pname, f.key),
                        format!("kill at point {k}/{m} ({pname}, step {pstep}): Store::new on the directory fails: {}", f.detail),
                    );
                    return out;
                }
            };
            w.events = script.events.clone();
            w.owned = script.events.iter().map(|e| e.to_owned_event().unwrap()).collect();
            w.by_id = script.events.iter().enumerate().map(|(i, e)| (e.id.clone(), i)).collect();
            let snap = match w.snapshot() {
                Ok(s) => s,
                Err(e) => {
                    out.fail(
                        format!("C13:lookup-fails-after-kill:{pname}:{e}"),
                        format!("kill at point {k}/{m} ({pname}, step {pstep}, {:?}): a lookup on the reopened store fails: {e}", steps.get(j)),
                    );
                    return out;
                }
            };
            // retrievable events intact (snapshot() already compares bytes through fingerprints; do it exactly)
            if let Err(e) = w.retrievable() {
                out.fail(format!("C13:event-bytes-damaged:{pname}"), format!("kill at point {k}/{m} ({pname}): {e}"));
                return out;
            }
            let _ = opened;
            // which reference state is this?
            let before = &snaps[j.min(steps.len())];
            let matched: Option<usize> = if j >= steps.len() {
                if snap == *before {
                    Some(steps.len())
                } else {
                    None
                }
            } else if snap == snaps[j] {
                Some(j)
            } else if snap == snaps[j + 1] {
                Some(j + 1)
            } else {
                None
            };
            let mut resume_from = match matched {
                Some(x) => x,
                None => {
                    // vanish: a subset of its targets may be gone, nothing else
                    let is_vanish = matches!(steps.get(j), Some(Concrete::Vanish(_)));
                    let (ra, rb, rs) = (retr_of(&snaps[j]), retr_of(&snaps[(j + 1).min(steps.len())]), retr_of(&snap));
                    if is_vanish && rb.is_subset(&rs) && rs.is_subset(&ra) {
                        let same_marks = snap.iter().filter(|(k, _)| k.starts_with("event_is_deleted") || k.starts_with("naddr_") || k.starts_with("stats:deleted")).all(|(k, v)| snaps[j].get(k) == Some(v));
                        if !same_marks {
                            out.fail(format!("C13:vanish-partial-changed-markers:{pname}"), format!("kill at point {k}/{m}"));
                            return out;
                        }
                        out.label("vanish-partial");
                        usize::MAX
                    } else {
                        let (cat, d) = diff_snapshots(&snaps[j.min(steps.len())], &snap).unwrap_or(("?".into(), "?".into()));
                        let d2 = if j < steps.len() { diff_snapshots(&snaps[j + 1], &snap).map(|x| x.1).unwrap_or_default() } else { String::new() };
                        out.fail(
                            format!("C13:neither-before-nor-after:{pname}:{cat}"),
                            format!(
                                "kill at point {k}/{m} ({pname}) inside step {j} {:?}: the reopened store is neither in the state before the step (differs: {d}) nor after it (differs: {d2})",
                                steps.get(j)
                            ),
                        );
                        return out;
                    }
                }
            };
            // ---- continuation: the remaining steps behave as on a store that was never interrupted
            if resume_from == usize::MAX {
                // partial vanish: re-run the vanish, then continue
                resume_from = j;
            }
            for i in resume_from..steps.len() {
                let r = w.apply(&steps[i]);
                if let Res::Panic(kk) = &r.res {
                    out.fail(format!("C13:continuation-panic:{pname}:{kk}"), format!("kill at point {k}/{m}, continuing with step {i}"));
                    return out;
                }
                if r.res.class() != ref_res[i].class() {
                    out.fail(
                        format!("C13:continuation-differs:{pname}:{}->{}", ref_res[i].class(), r.res.class()),
                        format!("kill at point {k}/{m} ({pname}) inside step {j}; afterwards step {i} {:?} returns {:?}, in the uninterrupted run {:?}", steps[i], r.res, ref_res[i]),
                    );
                    return out;
                }
            }
            match w.snapshot() {
                Ok(fin) => {
                    if let Some((cat, d)) = diff_snapshots(&snaps[steps.len()], &fin) {
                        out.fail(
                            format!("C13:final-state-differs:{pname}:{cat}"),
                            format!("kill at point {k}/{m} ({pname}) inside step {j}: after finishing the history the state differs from the uninterrupted run: {d}"),
                        );
                        return out;
                    }
                }
                Err(e) => {
                    out.fail(format!("C13:lookup-fails-after-continuation:{pname}:{e}"), format!("kill at point {k}/{m}"));
                    return out;
                }
            }
            drop(w);
            let _ = std::fs::remove_dir_all(&dir);
            let _ = std::fs::remove_file(progress_path(&dir));
        }
        out
    }
}

// ------------------------------------------------------------------------------------------
// Injected I/O failures (used by C12): the same child, the same tracer, but instead of killing the
// process its n-th system call is made to fail.

pub static FAULTS_INJECTED: AtomicU64 = AtomicU64::new(0);
static FAULT_HIST: Mutex<BTreeMap<String, u64>> = Mutex::new(BTreeMap::new());

pub fn fault_histogram() -> BTreeMap<String, u64> {
    FAULT_HIST.lock().unwrap().clone()
}

/// System calls whose failure a store call has to cope with: growing and remapping the event map, LMDB's page and
/// meta writes, flushes.
fn fallible(nr: i64) -> bool {
    [
        libc::SYS_ftruncate, libc::SYS_fallocate, libc::SYS_pwrite64, libc::SYS_pwritev, libc::SYS_writev, libc::SYS_mremap, libc::SYS_mmap, libc::SYS_msync,
        libc::SYS_fsync, libc::SYS_fdatasync, libc::SYS_lseek, libc::SYS_pread64,
    ]
    .contains(&nr)
}

/// Runs `ops` once in process (reference), then for up to `max_faults` of the fallible system calls the history
/// makes inside its steps: a fresh directory (on tmpfs, or with `disk` on the block file system), the child run
/// under the tracer through the WHOLE history, that one call failing with ENOSPC / EIO. The child snapshots its
/// still open store right after the step the call belongs to and again after the last step.
/// Oracle: (a) if the step was a store call and returned an error it does not return otherwise, the first snapshot
/// equals the reference snapshot before the step (C12); (b) the last snapshot equals the reference run of the
/// history without that step - a failed call leaves no damage that shows later; (c) with `judge_ok`: a step that
/// returns what it returns without the failure must have had its full effect (first snapshot = reference after
/// the step, last snapshot = reference end state).
pub fn inject_faults(prop: &str, ops: &[Op], max_faults: usize, disk: bool, judge_ok: bool, out: &mut Outcome) {
    let mut refw = match World::new(0) {
        Ok(w) => w,
        Err(f) => {
            out.fail(format!("{prop}:{}", f.key), f.detail);
            return;
        }
    };
    let mut steps: Vec<Concrete> = Vec::new();
    let mut ref_res: Vec<Res> = Vec::new();
    for op in ops {
        let Some(conc) = refw.concretise(op) else { continue };
        let st = refw.apply(&conc);
        if let Res::Panic(_) = &st.res {
            return; // reported by the in-process part of the check
        }
        steps.push(conc);
        ref_res.push(st.res);
    }
    if steps.is_empty() {
        return;
    }
    let script = Script { events: refw.events.clone(), steps: steps.clone() };
    let universe = |w: &mut World| {
        w.events = script.events.clone();
        w.owned = script.events.iter().map(|e| e.to_owned_event().unwrap()).collect();
        w.by_id = script.events.iter().enumerate().map(|(i, e)| (e.id.clone(), i)).collect();
    };
    // reference snapshots after every prefix; `skip`: the history without one step
    let replay = |skip: Option<usize>| -> Option<Vec<BTreeMap<String, String>>> {
        let mut w = World::new(0).ok()?;
        universe(&mut w);
        let mut snaps = vec![w.snapshot().ok()?];
        for (i, st) in steps.iter().enumerate() {
            if Some(i) != skip {
                let _ = w.apply(st);
            }
            snaps.push(w.snapshot().ok()?);
        }
        Some(snaps)
    };
    let Some(snaps) = replay(None) else { return };
    drop(refw);
    let base = if disk { scratch_base_disk() } else { scratch_base() };
    let area = match tempfile::Builder::new().prefix("c12f").tempdir_in(base) {
        Ok(d) => d,
        Err(e) => {
            out.fail(format!("{prop}:harness:tempdir"), e.to_string());
            return;
        }
    };
    let script_path = write_script(area.path(), &script);
    // every child parses the script and serialises snapshots: histories with events of hundreds of KB are left to
    // the in-process part of the check
    if std::fs::metadata(&script_path).map(|m| m.len()).unwrap_or(0) > 300_000 {
        out.label("fault-injection-skipped:large-script");
        return;
    }
    let dry = area.path().join("dry");
    let calls = match run_child_traced(&script_path, &dry, 0, usize::MAX, TraceMode::Dry, "") {
        Ok(t) if t.exit == Some(0) => t.syscalls,
        Ok(t) => {
            out.label(format!("skipped:traced dry run exit {:?} killed {}", t.exit, t.killed));
            return;
        }
        Err(e) => {
            out.label(format!("skipped:tracing unavailable:{}", &e[..e.len().min(60)]));
            return;
        }
    };
    let _ = std::fs::remove_dir_all(&dry);
    let _ = std::fs::remove_file(progress_path(&dry));
    let cands: Vec<usize> = calls.iter().enumerate().filter(|(_, (nr, step))| *step >= 0 && fallible(*nr)).map(|(i, _)| i).collect();
    if cands.is_empty() {
        return;
    }
    out.label(if disk { "fault-injection-history:block-fs" } else { "fault-injection-history:tmpfs" });
    // a failure that belongs to the recorded finding is reported only if nothing else turns up in this history
    let mut deferred: Option<(String, String)> = None;
    let n = max_faults.min(cands.len());
    for q in 0..n {
        let ci = cands[(q * cands.len()) / n];
        let (nr, step) = calls[ci];
        let j = step as usize;
        if j >= steps.len() {
            continue;
        }
        let errno = if ci % 2 == 0 { libc::ENOSPC } else { libc::EIO };
        let name = syscall_name(nr);
        let dir = area.path().join(format!("f{ci}"));
        let run = match run_child_traced(&script_path, &dir, 0, usize::MAX, TraceMode::FailAt(ci as u64 + 1, errno), &format!("snap@{j}")) {
            Ok(t) => t,
            Err(e) => {
                out.label(format!("skipped:tracing unavailable:{}", &e[..e.len().min(60)]));
                return;
            }
        };
        let _ = FAULTS_INJECTED.fetch_add(1, Ordering::SeqCst);
        out.sub_evals += 1;
        let sibling = |ext: &str| {
            let mut sp = dir.as_os_str().to_owned();
            sp.push(ext);
            PathBuf::from(sp)
        };
        let (snap_path, snap2_path) = (sibling(".snap"), sibling(".snap2"));
        let cleanup = || {
            let _ = std::fs::remove_dir_all(&dir);
            let _ = std::fs::remove_file(progress_path(&dir));
            let _ = std::fs::remove_file(&snap_path);
            let _ = std::fs::remove_file(&snap2_path);
        };
        if run.exit != Some(0) {
            // the process died of the failure (an unwrap on an I/O error, SIGBUS, ...): not a returned error
            *FAULT_HIST.lock().unwrap().entry(format!("{name}:child-died")).or_insert(0) += 1;
            out.label("fault:child-died");
            cleanup();
            continue;
        }
        let is_store = matches!(steps[j], Concrete::Store(_) | Concrete::StoreMany(_) | Concrete::Pressure(_));
        let (_, done) = read_progress(&dir);
        let class = done.iter().find(|(i, _)| *i == j).map(|(_, c)| c.clone()).unwrap_or_default();
        let snap_text = std::fs::read_to_string(&snap_path).unwrap_or_default();
        let snap2_text = std::fs::read_to_string(&snap2_path).unwrap_or_default();
        let failed = !matches!(class.as_str(), "ok" | "skipped" | "");
        let outcome_changed = class != ref_res[j].class();
        *FAULT_HIST.lock().unwrap().entry(format!("{name}:{}", if outcome_changed { class.as_str() } else { "tolerated" })).or_insert(0) += 1;
        let what = format!("step {j} {:?}: system call #{} of the history ({name}) made to fail with errno {errno}; the call returned '{class}' (without the failure: '{}')", steps[j], ci + 1, ref_res[j].class());
        if snap_text.starts_with("SNAPSHOT-ERROR") && snap_text.contains("MDB_PANIC") {
            // LMDB declares the environment fatally broken when its meta-page write fails: nothing can be looked up
            // through this store object any more. What a fresh process sees must still be the state before the call
            // (the later steps of the history all failed on the broken environment).
            let reopened = World::at(Dir { tmp: None, p: dir.clone() }, 0).and_then(|mut w| {
                universe(&mut w);
                w.snapshot().map_err(|e| Fail { key: format!("snapshot-error:{e}"), detail: String::new() })
            });
            match reopened {
                // (a vanish is a sequence of removals with a transaction each: part of it may be done)
                Ok(_) if !is_store => {}
                Ok(snap) => {
                    if let Some((cat, d)) = diff_snapshots(&snaps[j], &snap) {
                        out.fail(format!("{prop}:changed-by-failed-store:injected-{name}:after-reopen:{cat}"), format!("{what}; the environment is in LMDB's fatal state; after reopening the directory the store is not as before the call: {d}"));
                        cleanup();
                        return;
                    }
                }
                Err(f) => {
                    out.fail(format!("{prop}:reopen-fails-after-injected-failure:{name}:{}", f.key), format!("{what}; reopening the directory fails: {}", f.detail));
                    cleanup();
                    return;
                }
            }
            out.label("fault:environment-fatal");
            // (the finding itself is C12's: other callers only note it)
            if deferred.is_none() && prop == "C12" {
                deferred = Some((
                    "C12:store-object-unusable-after-failed-meta-page-write".to_string(),
                    format!(
                        "{what} (LMDB's meta-page write), and from then on every lookup through the same store object fails ({}); a reopened store shows exactly the state before the call",
                        snap_text.trim_start_matches("SNAPSHOT-ERROR ")
                    ),
                ));
            }
            cleanup();
            continue;
        }
        if snap_text.starts_with("SNAPSHOT-ERROR") || snap_text.is_empty() || snap2_text.starts_with("SNAPSHOT-ERROR") || snap2_text.is_empty() {
            out.fail(format!("{prop}:observe-error-after-injected-failure:{name}"), format!("{what}; afterwards looking at the store fails: {} / {}", &snap_text[..snap_text.len().min(200)], &snap2_text[..snap2_text.len().min(200)]));
            cleanup();
            return;
        }
        let snap: BTreeMap<String, String> = serde_json::from_str(&snap_text).unwrap_or_default();
        let snap2: BTreeMap<String, String> = serde_json::from_str(&snap2_text).unwrap_or_default();
        if is_store && failed && outcome_changed {
            out.label("fault:store-failed");
            out.sub_nontrivial += 1;
            out.nontrivial = true;
            if let Some((cat, d)) = diff_snapshots(&snaps[j], &snap) {
                out.fail(format!("{prop}:changed-by-failed-store:injected-{name}:{cat}"), format!("{what}, but the store is not as before the call: {d}"));
                cleanup();
                return;
            }
            // later: the history without the failed step
            if let Some(alt) = replay(Some(j)) {
                if let Some((cat, d)) = diff_snapshots(&alt[steps.len()], &snap2) {
                    out.fail(
                        format!("{prop}:latent-damage-after-failed-store:injected-{name}:{cat}"),
                        format!("{what} and changed nothing then; but after the remaining {} steps the store differs from a run of the same history without that step: {d}", steps.len() - j - 1),
                    );
                    cleanup();
                    return;
                }
            }
        } else if !outcome_changed {
            out.label("fault:tolerated");
            if judge_ok {
                if let Some((cat, d)) = diff_snapshots(&snaps[j + 1], &snap).or_else(|| diff_snapshots(&snaps[steps.len()], &snap2)) {
                    out.fail(
                        format!("{prop}:injected-failure-swallowed:{name}:{cat}"),
                        format!("{what}, i.e. it reported what it reports without the failure, but the store is not in the state that result stands for: {d}"),
                    );
                    cleanup();
                    return;
                }
            }
        }
        cleanup();
    }
    if let Some((k, d)) = deferred {
        out.fail(k, d);
    }
}
