//! C02 Event binary <-> JSON round trip is lossless and the binary form is canonical.

use crate::engine::*;
use crate::jsonx::*;
use crate::model::*;
use crate::props::c01::{compare_with_view, pocket_parse_event};
use pocket_types::Event;
use proptest::prelude::*;
use serde::{Deserialize, Serialize};
use std::hash::{Hash, Hasher};

#[derive(Clone, Debug, Serialize, Deserialize)]
pub struct Case {
    pub ev: MEvent,
    pub plan_a: Plan,
    pub plan_b: Plan,
    /// prior contents of the output buffers: byte i = fill ^ (i * stride)
    pub fill_a: u8,
    pub fill_b: u8,
    pub stride: u8,
    pub spare: u16,
}

pub struct C02;

fn prefilled(len: usize, fill: u8, stride: u8) -> Vec<u8> {
    (0..len).map(|i| fill ^ ((i as u8).wrapping_mul(stride))).collect()
}

fn parse_into(text: &[u8], buf: &mut [u8]) -> Result<Result<(usize, Vec<u8>), String>, Fail> {
    guard("Event::from_json", || match Event::from_json(text, buf) {
        Ok((n, e)) => Ok((n, e.as_bytes().to_vec())),
        Err(e) => Err(crate::props::c01::err_class(&e)),
    })
}

fn region(off: usize, tags_end: usize) -> &'static str {
    match off {
        0..=3 => "length",
        4..=5 => "kind",
        6..=7 => "padding",
        8..=15 => "created_at",
        16..=47 => "id",
        48..=79 => "pubkey",
        80..=143 => "sig",
        _ if off < tags_end => "tags",
        _ if off < tags_end + 4 => "content-length",
        _ => "content",
    }
}

fn first_diff(a: &[u8], b: &[u8]) -> Option<usize> {
    if a.len() != b.len() {
        return Some(a.len().min(b.len()));
    }
    a.iter().zip(b.iter()).position(|(x, y)| x != y)
}

fn std_hash<T: Hash + ?Sized>(t: &T) -> u64 {
    let mut h = std::collections::hash_map::DefaultHasher::new();
    t.hash(&mut h);
    h.finish()
}

impl Prop for C02 {
    type Case = Case;
    fn id(&self) -> &'static str {
        "C02"
    }
    fn rule(&self) -> String {
        "Cases: one event model built three ways - from parts (OwnedEvent::new), and from two independently rendered JSON texts (different member order / whitespace / escape spelling / unknown members) parsed into buffers pre-filled with generated non-zero patterns. Oracle: all three binaries byte-identical, == and std Hash equal; as_json() read by serde_json gives the seven model values; from_json(as_json(e)) is byte-identical to e. Non-trivial: the model has a character needing an escape or >= 2 bytes, or an empty tag / empty string, and a buffer's prior contents are non-zero.".into()
    }
    fn assumptions(&self) -> Vec<String> {
        vec![
            "serde_json is the independent parser for as_json() output.".into(),
            "Event strings are valid UTF-8 (they are Rust Strings in the model).".into(),
        ]
    }
    fn cases(&self, tier: Tier) -> u32 {
        tier.pick(120_000, 600_000)
    }
    fn strategy(&self, tier: Tier) -> BoxedStrategy<Case> {
        let maxlen = tier.pick(40, 400);
        (
            mevent_strategy(tier.pick(6, 40), maxlen),
            plan_strategy(7, 2, 3),
            plan_strategy(7, 2, 3),
            prop_oneof![Just(0u8), Just(0xffu8), any::<u8>()],
            prop_oneof![Just(0xffu8), Just(0u8), any::<u8>()],
            prop_oneof![Just(0u8), Just(1u8), any::<u8>()],
            prop_oneof![Just(0u16), 0u16..16, Just(4096u16)],
        )
            .prop_map(|(ev, plan_a, plan_b, fill_a, fill_b, stride, spare)| Case {
                ev,
                plan_a,
                plan_b,
                fill_a,
                fill_b,
                stride,
                spare,
            })
            .boxed()
    }
    fn label_floors(&self) -> Vec<(&'static str, f64)> {
        vec![("nonzero-prefill", 0.3), ("needs-escape", 0.3)]
    }
    fn check(&self, c: &Case) -> Outcome {
        let mut out = Outcome::default();
        let ev = &c.ev;
        if ev.tags_size() > 65535 {
            out.label("skipped:tags-too-big");
            return out;
        }
        let needs_escape = ev
            .tags
            .iter()
            .flatten()
            .chain(std::iter::once(&ev.content))
            .any(|s| s.chars().any(|ch| (ch as u32) < 0x20 || ch == '"' || ch == '\\' || (ch as u32) >= 0x80));
        let has_empty = ev.tags.iter().any(|t| t.is_empty() || t.iter().any(|s| s.is_empty())) || ev.content.is_empty();
        let nonzero = c.fill_a != 0 || c.fill_b != 0 || c.stride != 0;
        if needs_escape {
            out.label("needs-escape");
        }
        if has_empty {
            out.label("empty-tag-or-string");
        }
        if nonzero {
            out.label("nonzero-prefill");
        }
        out.nontrivial = (needs_escape || has_empty) && nonzero;

        // (1) from parts
        let e0 = match guard("OwnedEvent::new", || ev.to_owned_event()) {
            Ok(Ok(e)) => e,
            Ok(Err(e)) => {
                out.fail("C02:from-parts-failed", e);
                return out;
            }
            Err(f) => {
                out.fail(format!("C02:{}", f.key), f.detail);
                return out;
            }
        };
        let b0 = e0.as_bytes().to_vec();
        let tags_end = 144 + ev.tags_size();
        if b0.len() != ev.binary_size() {
            out.fail(
                "C02:from-parts-size",
                format!("binary size {} but model needs {}", b0.len(), ev.binary_size()),
            );
            return out;
        }

        // (2) two JSON renderings into dirty buffers
        let mut bins: Vec<Vec<u8>> = Vec::new();
        // unknown members must really be unknown (a second "id" member is a different text class)
        let sanitise = |p: &Plan| {
            let mut p = p.clone();
            p.unknown.retain(|u| !EVENT_MEMBERS.contains(&u.name.as_str()));
            p
        };
        let (plan_a, plan_b) = (sanitise(&c.plan_a), sanitise(&c.plan_b));
        for (plan, fill) in [(&plan_a, c.fill_a), (&plan_b, c.fill_b)] {
            let text = render_event(ev, plan);
            let mut buf = prefilled(b0.len() + c.spare as usize, fill, c.stride);
            match parse_into(text.as_bytes(), &mut buf) {
                Ok(Ok((_n, bytes))) => bins.push(bytes),
                Ok(Err(e)) => {
                    // texts nested more deeply than the independent reader follows (128 levels) are outside the
                    // domain (see C01): the renderings of such a case are not compared
                    if serde_json::from_str::<serde_json::Value>(&text).is_err() {
                        out.label("outside:nesting-limit");
                        return out;
                    }
                    out.fail(format!("C02:parse-failed:{e}"), format!("rendering rejected: {e}: {text}"));
                    return out;
                }
                Err(f) => {
                    out.fail(format!("C02:{}", f.key), f.detail);
                    return out;
                }
            }
        }
        for (i, b) in bins.iter().enumerate() {
            if let Some(off) = first_diff(&b0, b) {
                out.fail(
                    format!("C02:noncanonical:{}", region(off, tags_end)),
                    format!(
                        "binary from JSON rendering {} differs from the from-parts binary at offset {} (from-parts {:?}, json {:?}); lens {} / {}",
                        i,
                        off,
                        b0.get(off),
                        b.get(off),
                        b0.len(),
                        b.len()
                    ),
                );
                return out;
            }
        }
        // == and Hash through the library's own impls
        {
            let mut buf = prefilled(b0.len(), c.fill_b, c.stride);
            let text = render_event(ev, &plan_b);
            let r = guard("Event::eq", || match Event::from_json(text.as_bytes(), &mut buf) {
                Ok((_, e)) => Some((e == &*e0, std_hash(e) == std_hash(&*e0), std_hash(&e.to_owned()) == std_hash(&e0))),
                Err(_) => None,
            });
            match r {
                Ok(Some((eq, h, ho))) => {
                    if !eq {
                        out.fail("C02:not-equal", "event parsed from JSON != event built from parts");
                        return out;
                    }
                    if !h || !ho {
                        out.fail("C02:hash-differs", "Hash of the parsed event differs from the from-parts event");
                        return out;
                    }
                }
                Ok(None) => {}
                Err(f) => {
                    out.fail(format!("C02:{}", f.key), f.detail);
                    return out;
                }
            }
        }

        // (3) as_json -> independent reader -> same values; -> from_json -> identical bytes
        let js = match guard("Event::as_json", || e0.as_json()) {
            Ok(Ok(j)) => j,
            Ok(Err(e)) => {
                out.fail("C02:as_json-failed", format!("{e}"));
                return out;
            }
            Err(f) => {
                out.fail(format!("C02:{}", f.key), f.detail);
                return out;
            }
        };
        let view = match event_view(&js) {
            Some(v) if v.end == js.len() => v,
            _ => {
                out.fail(
                    "C02:as_json-invalid",
                    format!("independent reader rejects as_json output: {}", String::from_utf8_lossy(&js)),
                );
                return out;
            }
        };
        if !view.well_typed {
            out.fail(
                "C02:as_json-ill-typed",
                format!("as_json output lacks a well-typed member ({}): {}", view.why_not, String::from_utf8_lossy(&js)),
            );
            return out;
        }
        let exp = crate::props::c01::Parsed {
            consumed: js.len(),
            bytes: vec![],
            id: unhex(&ev.id).unwrap_or_default(),
            pubkey: unhex(&ev.pubkey).unwrap_or_default(),
            sig: unhex(&ev.sig).unwrap_or_default(),
            kind: ev.kind,
            created_at: ev.created_at,
            tags: ev.tags.iter().map(|t| t.iter().map(|s| s.as_bytes().to_vec()).collect()).collect(),
            content: ev.content.as_bytes().to_vec(),
            canary_ok: true,
        };
        if let Some((k, d)) = compare_with_view(&exp, &view) {
            out.fail(format!("C02:as_json:{k}"), format!("as_json output read back differs from the model: {d}"));
            return out;
        }
        match pocket_parse_event(&js, b0.len() + c.spare as usize, c.fill_a) {
            Ok(Ok(p)) => {
                if let Some(off) = first_diff(&b0, &p.bytes) {
                    out.fail(
                        format!("C02:roundtrip:{}", region(off, tags_end)),
                        format!("from_json(as_json(e)) differs from e at offset {off}"),
                    );
                } else if p.consumed != js.len() {
                    out.fail("C02:roundtrip:consumed", format!("consumed {} of {}", p.consumed, js.len()));
                }
            }
            Ok(Err(e)) => out.fail(
                format!("C02:roundtrip-rejected:{e}"),
                format!("from_json rejects as_json output: {e}: {}", String::from_utf8_lossy(&js)),
            ),
            Err(f) => out.fail(format!("C02:{}", f.key), f.detail),
        }
        out
    }
}

/// Round trip of an arbitrary accepted text (used by the fuzz target): parse, serialise, read the
/// serialisation with the independent reader, parse it again: same bytes.
pub fn roundtrip_raw(text: &[u8]) -> Outcome {
    let mut out = Outcome::default();
    let first = match pocket_parse_event(text, 70_000 + text.len(), 0xC3) {
        Ok(Ok(p)) => p,
        Ok(Err(_)) => {
            out.label("rejected");
            return out;
        }
        Err(_) => {
            out.label("panic(C03)");
            return out;
        }
    };
    // only events whose strings are valid UTF-8 are in scope
    let utf8 = first.tags.iter().flatten().all(|s| std::str::from_utf8(s).is_ok()) && std::str::from_utf8(&first.content).is_ok();
    if !utf8 {
        out.label("non-utf8-strings");
        return out;
    }
    out.nontrivial = true;
    let mut buf = vec![0u8; first.bytes.len()];
    let js = match guard("Event::as_json", || {
        buf.copy_from_slice(&first.bytes);
        let e = unsafe { Event::delineate(&buf) }.map_err(|e| e.to_string())?;
        e.as_json().map_err(|e| e.to_string())
    }) {
        Ok(Ok(j)) => j,
        Ok(Err(e)) => {
            out.fail("C02:as_json-failed", e);
            return out;
        }
        Err(f) => {
            out.fail(format!("C02:{}", f.key), f.detail);
            return out;
        }
    };
    let view = match event_view(&js) {
        Some(v) if v.end == js.len() && v.well_typed => v,
        _ => {
            out.fail("C02:as_json-invalid", format!("independent reader rejects as_json output: {}", String::from_utf8_lossy(&js)));
            return out;
        }
    };
    let mut exp = crate::props::c01::Parsed { consumed: js.len(), bytes: vec![], ..first };
    exp.canary_ok = true;
    if let Some((k, d)) = compare_with_view(&exp, &view) {
        out.fail(format!("C02:as_json:{k}"), d);
        return out;
    }
    match pocket_parse_event(&js, exp.id.len() + 70_000 + js.len(), 0x11) {
        Ok(Ok(p)) => {
            let orig = &buf;
            if p.bytes != *orig {
                let off = first_diff(orig, &p.bytes).unwrap_or(0);
                out.fail(format!("C02:roundtrip:{}", region(off, 144 + crate::model::tags_size(view.tags.as_ref().unwrap()))), format!("from_json(as_json(e)) differs from e at offset {off}"));
            }
        }
        Ok(Err(e)) => out.fail(format!("C02:roundtrip-rejected:{e}"), format!("from_json rejects as_json output: {}", String::from_utf8_lossy(&js))),
        Err(f) => out.fail(format!("C02:{}", f.key), f.detail),
    }
    out
}
