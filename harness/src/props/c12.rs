//! C12 A store call that fails changes nothing observable.

use crate::dbx::*;
use crate::engine::*;
use proptest::prelude::*;
use serde::{Deserialize, Serialize};

#[derive(Clone, Debug, Serialize, Deserialize)]
pub struct Case {
    pub ops: Vec<Op>,
    pub n_extra: u8,
    /// > 0: additionally run the history in a traced child process and make up to this many of its system calls
    /// fail, one per run (see c13::inject_faults)
    #[serde(default)]
    pub inject: u16,
}

pub struct C12;

impl Prop for C12 {
    type Case = Case;
    fn id(&self) -> &'static str {
        "C12"
    }
    fn rule(&self) -> String {
        "Cases: histories of 0..30 (thorough 0..100) operations biased towards failing stores: resubmissions (duplicate), events resubmitted after their id/address was deleted, older versions at replaceable addresses (refused after the pre-removal scan ran), deletion requests with 1..4 tags mixing own / foreign / absent / malformed 'e' and 'a' targets and addresses whose d is too long for an LMDB key. Oracle: for every store that returns an error, the snapshot before equals the snapshot after (has_event, get_event_by_id bytes, event_is_deleted for every id ever mentioned; naddr_is_deleted_asof and replaceable lookups for every address mentioned; ~25-80 unlimited queries covering every index plan; all ten index entry counts; extra table rows). Fault injection ('or any other' error): one history in 33 (its first 12 operations) is also run in a child process under ptrace, once per chosen system call of the kinds ftruncate / pwrite64 / pwritev / writev / mremap / mmap / msync / fsync / fdatasync / lseek / pread64 made inside a step (up to 20 per history, evenly spread; thorough: one history in 41, up to 40), that one call failing with ENOSPC or EIO; if the interrupted store call then returns an error, the snapshot the child takes from its still open store object must equal the reference snapshot before the call. Non-trivial: a failing store of a kind-5 event with >= 2 tags, or of a replaceable event refused as replaced (i.e. a failure after the transaction already performed effects).".into()
    }
    fn assumptions(&self) -> Vec<String> {
        vec!["event_bytes is not part of the snapshot: a failed store may leave orphan bytes in the event map, which no lookup reaches.".into()]
    }
    fn cases(&self, tier: Tier) -> u32 {
        tier.pick(3000, 40000)
    }
    fn strategy(&self, tier: Tier) -> BoxedStrategy<Case> {
        let w = OpWeights {
            store: 8,
            resubmit: 4,
            version: 6,
            remove: 1,
            delete_req: 6,
            delete_own: 3,
            vanish: 0,
            reopen: 0,
            rebuild: 0,
            extra: 1,
            pressure: 3,
            mass_delete: 0,
            big: 1,
        };
        let cfg = EvCfg {
            kind_weights: [2, 3, 4, 1, 1],
            ..EvCfg::default()
        };
        (history(w, cfg, tier.pick(30, 100)), 0u8..3, prop_oneof![tier.pick(64, 80) => Just(0u16), 1 => Just(tier.pick(20u16, 40u16)), 1 => Just(tier.pick(21u16, 41u16))])
            .prop_map(|(ops, n_extra, inject)| Case { ops, n_extra, inject })
            .boxed()
    }
    fn label_floors(&self) -> Vec<(&'static str, f64)> {
        vec![("failed-store", 0.5), ("failed-after-effects", 0.15)]
    }
    fn release_fraction(&self, tier: Tier) -> f64 {
        tier.pick(0.25, 0.08)
    }
    fn max_shrink_iters(&self) -> u32 {
        // a shrink step of a case with injected failures costs dozens of child processes
        120
    }
    fn check(&self, c: &Case) -> Outcome {
        let mut out = Outcome::default();
        let mut w = match World::new(c.n_extra as usize) {
            Ok(w) => w,
            Err(f) => {
                out.fail(format!("C12:{}", f.key), f.detail);
                return out;
            }
        };
        for (stepno, op) in c.ops.iter().enumerate() {
            let Some(conc) = w.concretise(op) else { continue };
            let is_store = matches!(conc.inner(), Concrete::Store(_));
            if conc.under_pressure() {
                out.label("store-under-reader-exhaustion");
            }
            let before = if is_store {
                match w.snapshot() {
                    Ok(s) => Some(s),
                    Err(e) => {
                        out.fail(format!("C12:snapshot-error:{e}"), format!("step {stepno}"));
                        return out;
                    }
                }
            } else {
                None
            };
            let step = w.apply(&conc);
            if let Res::Panic(k) = &step.res {
                out.fail(format!("C12:{k}"), format!("step {stepno} {:?}", op));
                return out;
            }
            if let (Some(before), StepKind::Store(i)) = (before, &step.kind) {
                if step.res.is_err() {
                    out.label("failed-store");
                    out.label(format!("failed:{}", step.res.class()));
                    let e = &w.events[*i];
                    if (e.kind == 5 && e.tags.len() >= 2 && matches!(step.res, Res::InvalidDelete | Res::Other(_))) || step.res == Res::Replaced {
                        out.label("failed-after-effects");
                        out.nontrivial = true;
                    }
                    let after = match w.snapshot() {
                        Ok(s) => s,
                        Err(e) => {
                            out.fail(format!("C12:snapshot-error:{e}"), format!("step {stepno}"));
                            return out;
                        }
                    };
                    if let Some((cat, d)) = diff_snapshots(&before, &after) {
                        out.fail(
                            format!("C12:changed-by-failed-store:{}:{}", step.res.class(), cat),
                            format!("step {stepno}: store of {} failed with {:?} but changed {}", e.short(), step.res, d),
                        );
                        return out;
                    }
                }
            }
        }
        drop(w);
        if c.inject > 0 && out.fail.is_none() {
            // "or any other" error: I/O failures injected at system-call level into a child process running the same history
            let short: Vec<Op> = c.ops.iter().take(12).cloned().collect();
            crate::props::c13::inject_faults("C12", &short, c.inject as usize, c.inject % 2 == 1, false, &mut out);
        }
        out
    }
    fn extra_coverage(&self) -> serde_json::Map<String, serde_json::Value> {
        let mut m = serde_json::Map::new();
        let _ = m.insert("io_failures_injected".into(), serde_json::json!(crate::props::c13::FAULTS_INJECTED.load(std::sync::atomic::Ordering::SeqCst)));
        let _ = m.insert("injected_failures_by_syscall_and_outcome".into(), serde_json::json!(crate::props::c13::fault_histogram()));
        m
    }
}
