//! C14 Concurrent stores serialize; concurrent queries see only whole committed states.
//!
//! A schedule controller owns the interleaving: every worker thread blocks at every named point
//! (`pocket_db::verif::point`) until the controller releases it, and exactly one worker runs at a
//! time. The schedule is generated data (a vector of choices), so it shrinks and replays.

use crate::dbx::*;
use crate::engine::*;
use crate::model::*;
use pocket_db::{ScreenResult, Store};
use pocket_types::Id;
use proptest::prelude::*;
use serde::{Deserialize, Serialize};
use std::cell::RefCell;
use std::collections::BTreeMap;
use std::sync::mpsc::{channel, Receiver, Sender};
use std::sync::{Arc, Once};
use std::time::Duration;

#[derive(Clone, Debug, Serialize, Deserialize, PartialEq)]
pub enum WOp {
    /// store universe event i
    Store(u8),
    Remove(u8),
    GetById(u8),
    Has(u8),
    /// run query q of the fixed query panel
    Query(u8),
}

#[derive(Clone, Debug, Serialize, Deserialize)]
pub struct Case {
    /// per thread, its operations
    pub threads: Vec<Vec<WOp>>,
    /// events stored before the threads start
    pub initial: Vec<u8>,
    pub schedule: Vec<u8>,
    /// thorough tier: run the same threads free-running on all cores this many times
    pub stress_rounds: u16,
    /// > 0: additionally run all write operations of the case on one thread, without any pausing, next to this
    /// many free-running reader threads
    #[serde(default)]
    pub spin: u8,
}

pub struct C14;

// ------------------------------------------------------------------------------------------
// The universe: a handful of colliding events

pub fn universe() -> Vec<MEvent> {
    let g = |author: u8, kind: u16, t: u64, tags: Vec<Vec<&str>>, clen: u32| {
        GenEvent {
            author,
            kind,
            created_at: t,
            tags: tags.into_iter().map(|t| t.into_iter().map(|s| s.to_string()).collect()).collect(),
            content_len: clen,
            idc: IdChoice::Hash,
            many: 0,
        }
        .to_model()
    };
    let mut v = vec![
        g(0, 1, 100, vec![vec!["t", "x"]], 10),                 // 0 regular
        g(0, 10002, 100, vec![vec!["t", "x"]], 5),              // 1 replaceable v1
        g(0, 10002, 105, vec![vec!["t", "x"]], 6),              // 2 replaceable v2 (newer)
        g(0, 30023, 100, vec![vec!["d", ""], vec!["t", "y"]], 5), // 3 parameterised v1 (the empty identifier, the usual default)
        g(0, 30023, 107, vec![vec!["d", ""], vec!["t", "y"]], 7), // 4 parameterised v2
        g(1, 1, 103, vec![vec!["t", "x"], vec!["p", "q"]], 300), // 5 regular, other author
        g(0, 10002, 103, vec![vec!["t", "y"]], 4),              // 6 replaceable v1.5 (between 1 and 2)
    ];
    // 7: deletion request by author 0 naming event 0 and the replaceable address
    let a0 = author(0);
    let del = GenEvent {
        author: 0,
        kind: 5,
        created_at: 104,
        tags: vec![vec!["e".to_string(), v[0].id.clone()], vec!["a".to_string(), format!("10002:{a0}:")]],
        content_len: 0,
        idc: IdChoice::Hash,
        many: 0,
    }
    .to_model();
    v.push(del);
    // 8: an ephemeral event (stored in the map, never indexed)
    v.push(g(1, 20001, 106, vec![vec!["t", "x"]], 120));
    v
}

pub fn query_panel(u: &[MEvent]) -> Vec<MFilter> {
    vec![
        MFilter { ids: vec![u[1].id.clone(), u[2].id.clone(), u[6].id.clone()], ..Default::default() },
        MFilter { ids: vec![u[3].id.clone(), u[4].id.clone(), u[0].id.clone()], ..Default::default() },
        MFilter { authors: vec![author(0)], ..Default::default() },
        MFilter { authors: vec![author(0)], kinds: vec![10002, 30023], ..Default::default() },
        MFilter { tags: vec![("t".into(), vec!["x".into(), "y".into()])], ..Default::default() },
        MFilter { kinds: vec![1, 10002], tags: vec![("t".into(), vec!["x".into()])], ..Default::default() },
        MFilter { authors: vec![author(0), author(1)], tags: vec![("t".into(), vec!["x".into(), "y".into()])], ..Default::default() },
        MFilter::default(),
        MFilter { ids: vec![u[2].id.clone(), u[1].id.clone()], limit: Some(1), ..Default::default() },
        MFilter { authors: vec![author(0), author(1)], kinds: vec![1], ..Default::default() },
        MFilter { authors: vec![author(1), author(0)], ..Default::default() },
    ]
}

// ------------------------------------------------------------------------------------------
// Hook plumbing

enum Msg {
    Point(usize, &'static str),
    OpDone(usize, usize, String),
    Finished(usize),
}

struct WorkerCtx {
    id: usize,
    to_ctl: Sender<Msg>,
    resume: Receiver<()>,
}

thread_local! {
    static CTX: RefCell<Option<WorkerCtx>> = const { RefCell::new(None) };
}

static HOOK_ONCE: Once = Once::new();

fn install_hook() {
    HOOK_ONCE.call_once(|| {
        pocket_db::verif::set_hook(Some(Arc::new(|name: &'static str| {
            pause_here(name);
        })));
    });
}

fn pause_here(name: &'static str) {
    CTX.with(|c| {
        if let Some(ctx) = c.borrow().as_ref() {
            if ctx.to_ctl.send(Msg::Point(ctx.id, name)).is_ok() {
                // blocked until the controller releases us (or goes away)
                let _ = ctx.resume.recv();
            }
        }
    });
}

/// (event index, offset) of every successful store of the concurrent run
static STORED: std::sync::Mutex<Vec<(u64, usize, u64)>> = std::sync::Mutex::new(Vec::new());

fn exec(st: &Store, u: &[MEvent], owned: &[pocket_types::OwnedEvent], panel: &[MFilter], op: &WOp) -> String {
    let r = guard("concurrent op", || match op {
        WOp::Store(i) => match st.store_event(&owned[*i as usize % owned.len()]) {
            Ok(off) => {
                STORED.lock().unwrap().push((st as *const Store as u64, *i as usize % owned.len(), off));
                "ok".to_string()
            }
            Err(e) => classify_err(&e).class().to_string(),
        },
        WOp::Remove(i) => match st.remove_event(Id::from_bytes(u[*i as usize % u.len()].id_arr())) {
            Ok(()) => "ok".to_string(),
            Err(e) => format!("err:{}", classify_err(&e).class()),
        },
        WOp::GetById(i) => {
            let m = &u[*i as usize % u.len()];
            match st.get_event_by_id(Id::from_bytes(m.id_arr())) {
                Ok(Some(e)) => {
                    if e.as_bytes() == owned[*i as usize % owned.len()].as_bytes() {
                        "some".to_string()
                    } else {
                        "some:WRONG-BYTES".to_string()
                    }
                }
                Ok(None) => "none".to_string(),
                Err(e) => format!("err:{}", crate::props::c01::err_class(&e)),
            }
        }
        WOp::Has(i) => match st.has_event(Id::from_bytes(u[*i as usize % u.len()].id_arr())) {
            Ok(b) => b.to_string(),
            Err(e) => format!("err:{}", crate::props::c01::err_class(&e)),
        },
        WOp::Query(q) => {
            let f = &panel[*q as usize % panel.len()];
            match f.to_owned_filter() {
                Ok(of) => match st.find_events(&of, true, 0, 0, |_| ScreenResult::Match) {
                    Ok((v, _)) => {
                        let mut s = String::new();
                        for e in v {
                            let id = hex(e.id().as_slice());
                            let idx = u.iter().position(|m| m.id == id);
                            match idx {
                                Some(i) => {
                                    if e.as_bytes() != owned[i].as_bytes() {
                                        s.push_str("WRONG-BYTES");
                                    }
                                    s.push_str(&format!("{i},"));
                                }
                                None => s.push_str("UNKNOWN,"),
                            }
                        }
                        s
                    }
                    Err(e) => format!("err:{}", crate::props::c01::err_class(&e)),
                },
                Err(e) => format!("err:{e}"),
            }
        }
    });
    match r {
        Ok(s) => s,
        Err(f) => format!("PANIC:{}", f.key),
    }
}

fn forget_stored(st: &Store) {
    let me = st as *const Store as u64;
    STORED.lock().unwrap().retain(|x| x.0 != me);
}

fn is_write(op: &WOp) -> bool {
    matches!(op, WOp::Store(_) | WOp::Remove(_))
}

#[derive(Debug, Clone)]
struct ReadRec {
    worker: usize,
    opi: usize,
    op: WOp,
    c1: usize,
    c2: usize,
    result: String,
}

#[derive(Debug, Clone)]
struct WriteRec {
    op: WOp,
    result: String,
    committed: bool,
}

struct RunLog {
    /// writers in lock-acquisition order
    writes: Vec<WriteRec>,
    reads: Vec<ReadRec>,
    overlapped_writer: bool,
    commit_during_read: bool,
    steps: usize,
}

/// Runs the threads under the controller. Err = inconclusive (a worker did not report back).
///
/// One worker runs at a time. A worker paused at `*.enter` is about to take the LMDB writer lock:
/// normally it is only released when the lock is free; when the schedule byte has its top bit set it
/// may also be released while another worker holds the lock ("speculative release") - it then either
/// reports back at once (code that answers before taking the lock) or blocks in `write_txn()`, which
/// the controller notices by a short time-out; a blocked worker reports its next point as soon as the
/// holder lets go of the lock.
fn run_controlled(st: &Store, u: &[MEvent], owned: &[pocket_types::OwnedEvent], panel: &[MFilter], c: &Case) -> Result<RunLog, String> {
    install_hook();
    let n = c.threads.len();
    let (to_ctl, from_workers) = channel::<Msg>();
    let mut resumes: Vec<Sender<()>> = Vec::new();
    let mut log = RunLog { writes: Vec::new(), reads: Vec::new(), overlapped_writer: false, commit_during_read: false, steps: 0 };
    let result: Result<(), String> = std::thread::scope(|scope| {
        let resumes = &mut resumes;
        for (w, ops) in c.threads.iter().enumerate() {
            let (tx, rx) = channel::<()>();
            resumes.push(tx);
            let to_ctl = to_ctl.clone();
            let ops = ops.clone();
            let slot = current_slot();
            let _ = scope.spawn(move || {
                adopt_slot(slot);
                CTX.with(|cx| *cx.borrow_mut() = Some(WorkerCtx { id: w, to_ctl: to_ctl.clone(), resume: rx }));
                for (i, op) in ops.iter().enumerate() {
                    pause_here("op.begin");
                    let r = exec(st, u, owned, panel, op);
                    let _ = to_ctl.send(Msg::OpDone(w, i, r));
                }
                let _ = to_ctl.send(Msg::Finished(w));
                CTX.with(|cx| *cx.borrow_mut() = None);
            });
        }
        #[derive(Clone, PartialEq, Debug)]
        enum S {
            Starting,
            Paused(&'static str),
            /// released into a held writer lock; will report when it gets the lock
            Blocked,
            Done,
        }
        struct Ctl {
            state: Vec<S>,
            cur_op: Vec<usize>,
            lock_holder: Option<usize>,
            commits: usize,
            write_slot: BTreeMap<usize, usize>,
            read_c1: BTreeMap<usize, usize>,
            in_read: Vec<bool>,
            in_txn: Vec<bool>,
        }
        let mut k = Ctl {
            state: vec![S::Starting; n],
            cur_op: vec![0usize; n],
            lock_holder: None,
            commits: 0,
            write_slot: BTreeMap::new(),
            read_c1: BTreeMap::new(),
            in_read: vec![false; n],
            in_txn: vec![false; n],
        };
        // bookkeeping for a message; returns true when the sender has paused or finished
        let mut handle = |k: &mut Ctl, log: &mut RunLog, m: Msg| -> bool {
            match m {
                Msg::Point(x, p) => {
                    match p {
                        "store.txn" | "remove.txn" => {
                            k.in_txn[x] = true;
                            k.lock_holder = Some(x);
                            let op = c.threads[x][k.cur_op[x]].clone();
                            let _ = k.write_slot.insert(x, log.writes.len());
                            log.writes.push(WriteRec { op, result: String::new(), committed: false });
                        }
                        "store.committed" | "remove.committed" => {
                            k.commits += 1;
                            k.in_txn[x] = false;
                            if k.lock_holder == Some(x) {
                                k.lock_holder = None;
                            }
                            if let Some(slot) = k.write_slot.get(&x) {
                                log.writes[*slot].committed = true;
                            }
                            if (0..n).any(|o| o != x && k.in_read[o]) {
                                log.commit_during_read = true;
                            }
                        }
                        _ => {}
                    }
                    k.state[x] = S::Paused(p);
                    true
                }
                Msg::OpDone(x, i, r) => {
                    let op = c.threads[x][i].clone();
                    if is_write(&op) {
                        k.in_txn[x] = false;
                        if k.lock_holder == Some(x) {
                            k.lock_holder = None;
                        }
                        match k.write_slot.remove(&x) {
                            Some(slot) => log.writes[slot].result = r,
                            // answered without ever taking the writer lock: ordered at its completion
                            None => log.writes.push(WriteRec { op, result: r, committed: false }),
                        }
                    } else {
                        k.in_read[x] = false;
                        let c1 = k.read_c1.remove(&x).unwrap_or(0);
                        log.reads.push(ReadRec { worker: x, opi: i, op, c1, c2: k.commits, result: r });
                    }
                    k.cur_op[x] = i + 1;
                    false
                }
                Msg::Finished(x) => {
                    k.state[x] = S::Done;
                    true
                }
            }
        };
        // every worker runs freely up to its first op.begin
        let mut waiting = n;
        while waiting > 0 {
            match from_workers.recv_timeout(Duration::from_secs(20)) {
                Ok(m) => {
                    if handle(&mut k, &mut log, m) {
                        waiting -= 1;
                    }
                }
                Err(_) => {
                    resumes.clear();
                    return Err("worker did not reach its first point".to_string());
                }
            }
        }
        let mut sched_pos = 0usize;
        const RUN_LENGTHS: [u32; 16] = [1, 1, 1, 2, 2, 3, 3, 4, 5, 6, 8, 12, 16, 24, 40, 400];
        let mut run_left = 0u32;
        let mut run_worker: Option<usize> = None;
        let mut cur_byte = 0u8;
        loop {
            if k.state.iter().all(|s| *s == S::Done) {
                break;
            }
            // a blocked worker takes the lock as soon as it is free: wait for its report first
            if k.lock_holder.is_none() && k.state.iter().any(|s| *s == S::Blocked) {
                match from_workers.recv_timeout(Duration::from_secs(20)) {
                    Ok(m) => {
                        let _ = handle(&mut k, &mut log, m);
                        continue;
                    }
                    Err(_) => {
                        resumes.clear();
                        return Err(format!("blocked worker never got the lock: {:?}", k.state));
                    }
                }
            }
            // one schedule byte = one run: bits 0-2 choose the worker, bits 3-6 the run length, bit 7 allows a
            // speculative release into a held writer lock
            if run_left == 0 {
                cur_byte = if c.schedule.is_empty() { 0 } else { c.schedule[sched_pos % c.schedule.len()] };
                sched_pos += 1;
                run_left = RUN_LENGTHS[((cur_byte >> 3) & 0xF) as usize];
                run_worker = None;
            }
            run_left -= 1;
            let byte = cur_byte;
            let speculative_ok = byte & 0x80 != 0;
            let runnable: Vec<usize> = (0..n)
                .filter(|w| match &k.state[*w] {
                    S::Paused(p) => {
                        let wants_lock = *p == "store.enter" || *p == "remove.enter";
                        !wants_lock || k.lock_holder.is_none() || k.lock_holder == Some(*w) || speculative_ok
                    }
                    _ => false,
                })
                .collect();
            if runnable.is_empty() {
                if speculative_ok || run_left > 0 {
                    run_left = 0;
                    if speculative_ok {
                        continue;
                    }
                }
                // only workers waiting for the lock are left and the holder is... nobody: cannot happen; only blocked ones: wait
                if k.state.iter().any(|s| *s == S::Blocked) {
                    match from_workers.recv_timeout(Duration::from_secs(20)) {
                        Ok(m) => {
                            let _ = handle(&mut k, &mut log, m);
                            continue;
                        }
                        Err(_) => {
                            resumes.clear();
                            return Err(format!("deadlock: {:?} lock={:?}", k.state, k.lock_holder));
                        }
                    }
                }
                resumes.clear();
                return Err(format!("no runnable worker: {:?} lock={:?}", k.state, k.lock_holder));
            }
            let w = match run_worker {
                Some(x) if runnable.contains(&x) => x,
                _ => {
                    let x = runnable[(byte & 0x7) as usize % runnable.len()];
                    run_worker = Some(x);
                    x
                }
            };
            log.steps += 1;
            let mut speculative = false;
            if let S::Paused(p) = &k.state[w] {
                match *p {
                    "op.begin" => {
                        let op = &c.threads[w][k.cur_op[w]];
                        if !is_write(op) {
                            let _ = k.read_c1.insert(w, k.commits);
                            k.in_read[w] = true;
                        }
                    }
                    "store.enter" | "remove.enter" => {
                        speculative = k.lock_holder.is_some() && k.lock_holder != Some(w);
                    }
                    _ => {}
                }
            }
            if (0..n).any(|o| o != w && k.in_txn[o]) {
                log.overlapped_writer = true;
            }
            k.state[w] = S::Starting; // running
            if resumes[w].send(()).is_err() {
                resumes.clear();
                return Err("worker vanished".to_string());
            }
            // run it until it pauses again, finishes, or (speculative release) turns out to be blocked
            loop {
                let timeout = if speculative { Duration::from_millis(25) } else { Duration::from_secs(20) };
                match from_workers.recv_timeout(timeout) {
                    Ok(m) => {
                        let from = match &m {
                            Msg::Point(x, _) | Msg::OpDone(x, _, _) | Msg::Finished(x) => *x,
                        };
                        let stopped = handle(&mut k, &mut log, m);
                        if from == w && stopped {
                            break;
                        }
                        // messages of a formerly blocked worker that got the lock meanwhile are just recorded
                    }
                    Err(_) => {
                        if speculative {
                            k.state[w] = S::Blocked;
                            break;
                        }
                        resumes.clear();
                        return Err(format!("worker {w} did not report back within 20 s (blocked in a lock the controller does not model?) state={:?}", k.state));
                    }
                }
            }
        }
        Ok(())
    });
    result.map(|_| log)
}

fn spin_phase(c: &Case, u: &[MEvent], panel: &[MFilter], out: &mut Outcome) -> Option<Fail> {
    let wops: Vec<WOp> = c.threads.iter().flatten().filter(|o| is_write(o)).cloned().collect();
    if wops.is_empty() {
        return None;
    }
    let mut rops: Vec<WOp> = c.threads.iter().flatten().filter(|o| !is_write(o)).cloned().collect();
    rops.extend((0..panel.len()).map(|q| WOp::Query(q as u8)));
    rops.extend((0..u.len()).map(|i| WOp::GetById(i as u8)));
    // serial reference: allowed[k][r] = answer of read r after the first k writes
    let rw = match fresh_world(&c.initial, u) {
        Ok(w) => w,
        Err(f) => return Some(Fail { key: format!("C14:{}", f.key), detail: f.detail }),
    };
    let mut allowed: Vec<Vec<String>> = Vec::new();
    let mut serial_results: Vec<String> = Vec::new();
    for k in 0..=wops.len() {
        allowed.push(rops.iter().map(|r| exec(rw.st(), u, &rw.owned, panel, r)).collect());
        if k < wops.len() {
            serial_results.push(exec(rw.st(), u, &rw.owned, panel, &wops[k]));
        }
    }
    forget_stored(rw.st());
    drop(rw);
    let sw = match fresh_world(&c.initial, u) {
        Ok(w) => w,
        Err(f) => return Some(Fail { key: format!("C14:{}", f.key), detail: f.detail }),
    };
    let n_readers = c.spin as usize;
    let done = std::sync::atomic::AtomicBool::new(false);
    let barrier = std::sync::Barrier::new(n_readers + 1);
    let (conc_results, observations): (Vec<String>, Vec<Vec<(usize, String)>>) = std::thread::scope(|scope| {
        let st = sw.st();
        let owned = &sw.owned;
        let (done, barrier, rops, wops) = (&done, &barrier, &rops, &wops);
        let slot = current_slot();
        let readers: Vec<_> = (0..n_readers)
            .map(|t| {
                scope.spawn(move || {
                    adopt_slot(slot);
                    let mut obs: Vec<(usize, String)> = Vec::new();
                    let _ = barrier.wait();
                    let mut i = t * 5;
                    loop {
                        let finished = done.load(std::sync::atomic::Ordering::SeqCst);
                        for _ in 0..rops.len() {
                            let ri = i % rops.len();
                            i += 1;
                            obs.push((ri, exec(st, u, owned, panel, &rops[ri])));
                        }
                        if finished || obs.len() > 30_000 {
                            break;
                        }
                    }
                    obs
                })
            })
            .collect();
        let writer = scope.spawn(move || {
            adopt_slot(slot);
            let _ = barrier.wait();
            // let the readers get going
            std::thread::yield_now();
            let r: Vec<String> = wops.iter().map(|op| exec(st, u, owned, panel, op)).collect();
            done.store(true, std::sync::atomic::Ordering::SeqCst);
            r
        });
        let w = writer.join().unwrap_or_default();
        (w, readers.into_iter().map(|h| h.join().unwrap_or_default()).collect())
    });
    forget_stored(sw.st());
    out.label("spin-readers");
    if conc_results != serial_results {
        return Some(Fail {
            key: "C14:spin:single-writer-results-differ-from-serial".into(),
            detail: format!("writes {:?}: next to free-running readers {:?}, alone {:?}", wops, conc_results, serial_results),
        });
    }
    let mut saw_intermediate = false;
    for (t, obs) in observations.iter().enumerate() {
        let mut min_k = 0usize;
        for (n, (ri, ans)) in obs.iter().enumerate() {
            if ans.contains("PANIC") || ans.starts_with("err:") || ans.contains("WRONG-BYTES") || ans.contains("UNKNOWN") {
                return Some(Fail {
                    key: format!("C14:spin:read-failed:{}", ans.split(':').take(2).collect::<Vec<_>>().join(":")),
                    detail: format!("reader {t}, read #{n} {:?} next to the writer {:?} returned {ans}", rops[*ri], wops),
                });
            }
            match (min_k..=wops.len()).find(|k| allowed[*k][*ri] == *ans) {
                Some(k) => {
                    if k > 0 && k < wops.len() {
                        saw_intermediate = true;
                    }
                    min_k = k;
                }
                None => {
                    let ever = (0..=wops.len()).any(|k| allowed[k][*ri] == *ans);
                    return Some(Fail {
                        key: format!("C14:spin:{}:{}", if ever { "reads-go-back-in-time" } else { "read-matches-no-prefix" }, match &rops[*ri] {
                            WOp::Query(q) => format!("query{q}"),
                            WOp::GetById(_) => "get".to_string(),
                            _ => "has".to_string(),
                        }),
                        detail: format!(
                            "one thread executes {:?} without interruption; reader {t}'s read #{n} {:?} returned [{ans}], which is the answer after no prefix >= {min_k} of those writes (answers after 0..={} writes: {:?})",
                            wops,
                            rops[*ri],
                            wops.len(),
                            (0..=wops.len()).map(|k| allowed[k][*ri].clone()).collect::<Vec<_>>()
                        ),
                    });
                }
            }
        }
    }
    if saw_intermediate {
        out.label("spin-reader-saw-intermediate-state");
        out.nontrivial = true;
    }
    drop(sw);
    None
}

fn fresh_world(initial: &[u8], u: &[MEvent]) -> Result<World, Fail> {
    let mut w = World::new(0)?;
    w.events = u.to_vec();
    w.owned = u.iter().map(|e| e.to_owned_event().unwrap()).collect();
    w.by_id = u.iter().enumerate().map(|(i, e)| (e.id.clone(), i)).collect();
    for i in initial {
        let _ = w.store_idx(*i as usize % u.len());
    }
    Ok(w)
}

impl Prop for C14 {
    type Case = Case;
    fn id(&self) -> &'static str {
        "C14"
    }
    fn rule(&self) -> String {
        "Cases: 2-4 threads x 1-3 operations each over a universe of 8 colliding events (a regular event, three versions of one replaceable address, two of one parameterised address, another author's event, a deletion request naming the regular event and the replaceable address): store (the same event from several threads, versions in any order), remove, get_event_by_id, has_event, and 9 queries covering every index plan incl. ids lists and ids+limit; 0-4 events stored beforehand; plus a schedule = vector of choices. A controller blocks every worker at every named point (op.begin, *.enter, *.txn, checked, preremoved, padded, mid-copy, copied, appended, indexed, deltag, precommit, committed, find.txn, find.range, get.enter, has.enter) and releases exactly one at a time according to the schedule, never into the LMDB writer lock while another worker holds it. Oracle: the writers are replayed serially on a fresh store in lock-acquisition order: every result class must equal the concurrent run's; every read must equal the same read on the replay store after k committed writers for some k between the number of commits when the read began and when it returned; final snapshots equal; of N submissions of one event exactly one succeeds unless it was removed in between; no read returns an error, unknown events or wrong bytes. One case in five is also run as 'one writer, three free-running readers' without any pausing: all write operations of the case on one thread, the readers looping over the case's reads, all 11 panel queries and get_event_by_id of every universe event; every answer must be the serial replay's answer after some prefix of the writes, and the prefixes one reader sees never decrease (no hook, no lock model involved). The thorough tier also runs the same threads free-running on all cores and compares the final state with some serial order. Non-trivial: another thread ran while a writer was paused inside its transaction, or a commit happened while a read was in progress. Runs in the release profile with < 1 MiB of events (the event map never grows, see C15).".into()
    }
    fn assumptions(&self) -> Vec<String> {
        vec![
            "Interleavings are explored at the granularity of the named points; races inside one step (inside LMDB, inside memcpy) are only reachable by the free-running stress of the thorough tier.".into(),
            "The only lock held across points is the LMDB writer lock (taken in write_txn); a worker that blocks anywhere else makes the controller time out, which is reported as inconclusive (exit 2), never as a violation.".into(),
            "The event map does not grow during a case (open finding C15 would otherwise crash paused readers).".into(),
        ]
    }
    fn cases(&self, tier: Tier) -> u32 {
        tier.pick(8_000, 150_000)
    }
    fn max_shrink_iters(&self) -> u32 {
        600
    }
    fn strategy(&self, tier: Tier) -> BoxedStrategy<Case> {
        let wop = prop_oneof![
            6 => (0u8..9).prop_map(WOp::Store),
            1 => (0u8..7).prop_map(WOp::Remove),
            1 => (0u8..7).prop_map(WOp::GetById),
            1 => (0u8..7).prop_map(WOp::Has),
            5 => prop_oneof![2 => (0u8..11).prop_map(WOp::Query), 3 => prop::sample::select(vec![0u8, 1, 3, 4, 6, 9, 10]).prop_map(WOp::Query)],
        ];
        let free = (
            prop::collection::vec(prop::collection::vec(wop.clone(), 1..4), 2..5),
            prop::collection::vec(0u8..7, 0..4),
            prop::collection::vec(any::<u8>(), 0..40),
            Just(tier.pick(0u16, 3)),
        )
            .prop_map(|(threads, initial, schedule, stress_rounds)| Case { threads, initial, schedule, stress_rounds, spin: 0 });
        // scenario template: one reader running a multi-range query, one writer storing events that fall into
        // different ranges of that query (in scan order or reversed), optionally more threads
        // (query, events of its first-scanned range, events of a later range)
        // (query, events of its first-scanned range, events of a later range, events stored beforehand)
        let scen = prop::sample::select(vec![
            (3u8, vec![1u8, 2, 6], vec![3u8, 4], vec![]),
            (9, vec![0], vec![5], vec![]),
            (10, vec![5], vec![0, 1, 3], vec![]),
            (4, vec![0, 1, 2, 5], vec![3, 4, 6], vec![]),
            (6, vec![0, 1, 2], vec![5], vec![]),
            (0, vec![1], vec![2, 6], vec![]),
            (1, vec![3], vec![4, 0], vec![]),
            // a replacement followed by a deletion request that names another queried, stored event
            (1, vec![4], vec![7], vec![3u8, 0]),
            (0, vec![2], vec![7], vec![1, 0]),
            (2, vec![2, 4], vec![7], vec![0, 1]),
            (7, vec![2], vec![7], vec![0, 1, 5]),
            // an ephemeral store next to a regular one (map append / growth bookkeeping)
            (7, vec![8], vec![0, 5], vec![]),
            (2, vec![0], vec![8], vec![]),
        ]);
        let templated = (
            scen,
            any::<[u8; 4]>(),
            any::<bool>(),
            prop::collection::vec(prop::collection::vec(wop, 1..3), 0..2),
            prop::collection::vec(0u8..7, 0..3),
            prop::collection::vec(any::<u8>(), 0..12),
            prop::option::weighted(0.6, (prop::sample::select(vec![3u8, 5, 7, 8, 9, 10]), any::<bool>())),
            Just(tier.pick(0u16, 3)),
        )
            .prop_map(|((q, first, later, init), pick, reversed, extra, initial, schedule, prefix, stress_rounds)| {
                let a = first[pick[0] as usize % first.len()];
                let b = later[pick[1] as usize % later.len()];
                let mut writer = if reversed { vec![WOp::Store(b), WOp::Store(a)] } else { vec![WOp::Store(a), WOp::Store(b)] };
                if pick[2] % 3 == 0 {
                    writer.push(WOp::Store(later[pick[3] as usize % later.len()]));
                }
                let mut threads = vec![vec![WOp::Query(q)], writer];
                let mut reader = 0u8;
                if pick[2] % 2 == 0 {
                    threads.swap(0, 1);
                    reader = 1;
                }
                threads.extend(extra);
                let initial = if init.is_empty() { initial } else { init };
                // structured schedule prefix: the reader runs a few steps, then the writer runs to its end
                let mut sched = Vec::new();
                if let Some((code, spec)) = prefix {
                    sched.push((code << 3) | reader);
                    // the reader is paused now; among the runnable workers the writer is the first or second
                    sched.push((15 << 3) | if reader == 0 { 1 } else { 0 } | if spec { 0x80 } else { 0 });
                }
                sched.extend(schedule);
                Case { threads, initial, schedule: sched, stress_rounds, spin: 0 }
            });
        (prop_oneof![3 => free, 2 => templated], prop_oneof![4 => Just(0u8), 1 => Just(3u8)])
            .prop_map(|(mut c, spin)| {
                c.spin = spin;
                c
            })
            .boxed()
    }
    fn label_floors(&self) -> Vec<(&'static str, f64)> {
        vec![("writer-overlapped", 0.3), ("commit-during-read", 0.1), ("same-event-from-two-threads", 0.05)]
    }
    fn check(&self, c: &Case) -> Outcome {
        let mut out = Outcome::default();
        let u = universe();
        let panel = query_panel(&u);
        let w = match fresh_world(&c.initial, &u) {
            Ok(w) => w,
            Err(f) => {
                out.fail(format!("C14:{}", f.key), f.detail);
                return out;
            }
        };
        forget_stored(w.st());
        let log = match run_controlled(w.st(), &u, &w.owned, &panel, c) {
            Ok(l) => l,
            Err(e) => {
                out.inconclusive = Some("controller-timeout".into());
                out.label(format!("inconclusive:{}", &e[..e.len().min(60)]));
                // the store may still be in use by stuck threads: leak it
                std::mem::forget(w);
                return out;
            }
        };
        if log.overlapped_writer {
            out.label("writer-overlapped");
        }
        if log.commit_during_read {
            out.label("commit-during-read");
        }
        out.nontrivial = log.overlapped_writer || log.commit_during_read;
        // direct checks on the concurrent run
        for r in &log.reads {
            if r.result.contains("PANIC") || r.result.starts_with("err:") || r.result.contains("WRONG-BYTES") || r.result.contains("UNKNOWN") {
                out.fail(
                    format!("C14:read-failed:{}", r.result.split(':').take(2).collect::<Vec<_>>().join(":")),
                    format!("thread {} op {} {:?} returned {}", r.worker, r.opi, r.op, r.result),
                );
                return out;
            }
        }
        for wr in &log.writes {
            if wr.result.contains("PANIC") || wr.result == "other-error" || wr.result.starts_with("err:") {
                out.fail(format!("C14:write-failed:{}", wr.result), format!("{:?} returned {}", wr.op, wr.result));
                return out;
            }
        }
        let mut by_event: BTreeMap<u8, usize> = BTreeMap::new();
        for t in &c.threads {
            for op in t {
                if let WOp::Store(i) = op {
                    *by_event.entry(*i).or_insert(0) += 1;
                }
            }
        }
        if by_event.values().any(|n| *n >= 2) {
            out.label("same-event-from-two-threads");
        }
        // every offset handed out during the concurrent run reads back the event that was stored there
        {
            let me = w.st() as *const Store as u64;
            let mut all = STORED.lock().unwrap();
            let mine: Vec<(usize, u64)> = all.iter().filter(|x| x.0 == me).map(|x| (x.1, x.2)).collect();
            all.retain(|x| x.0 != me);
            drop(all);
            let mut seen = std::collections::BTreeSet::new();
            for (i, off) in mine {
                if !seen.insert(off) {
                    out.fail("C14:offset-handed-out-twice", format!("offset {off}"));
                    return out;
                }
                match w.get_by_offset(off) {
                    Ok(b) if b == w.owned[i].as_bytes() => {}
                    Ok(_) => {
                        out.fail("C14:stored-bytes-damaged", format!("event {i} stored at offset {off} during the concurrent run does not read back"));
                        return out;
                    }
                    Err(e) => {
                        out.fail(format!("C14:stored-offset-unreadable:{e}"), format!("event {i} at offset {off}"));
                        return out;
                    }
                }
            }
        }
        // at most one retrievable event per replaceable address, whatever the interleaving was
        match w.retrievable() {
            Ok(r) => {
                let mut per: BTreeMap<(u16, String, String), usize> = BTreeMap::new();
                for i in r {
                    if let Some(a) = World::address_of(&u[i]) {
                        *per.entry(a).or_insert(0) += 1;
                    }
                }
                if let Some((a, n)) = per.iter().find(|(_, n)| **n > 1) {
                    out.fail("C14:two-events-at-one-address", format!("after the concurrent run the address {}:{}..:{:?} holds {n} retrievable events", a.0, &a.1[..6], a.2));
                    return out;
                }
            }
            Err(e) => {
                out.fail(format!("C14:observe-error:{e}"), "after the concurrent run");
                return out;
            }
        }
        // final state of the concurrent run
        let final_conc = match w.snapshot() {
            Ok(s) => s,
            Err(e) => {
                out.fail(format!("C14:snapshot-error:{e}"), "after the concurrent run");
                return out;
            }
        };
        // serial replay in lock order
        let rw = match fresh_world(&c.initial, &u) {
            Ok(w) => w,
            Err(f) => {
                out.fail(format!("C14:{}", f.key), f.detail);
                return out;
            }
        };
        forget_stored(rw.st());
        let eval_reads = |rw: &World, k: usize, reads: &[ReadRec], acc: &mut Vec<Vec<(usize, String)>>| {
            for (ri, r) in reads.iter().enumerate() {
                if r.c1 <= k && k <= r.c2 {
                    let res = exec(rw.st(), &u, &rw.owned, &panel, &r.op);
                    acc[ri].push((k, res));
                }
            }
        };
        let mut acc: Vec<Vec<(usize, String)>> = vec![Vec::new(); log.reads.len()];
        let mut k = 0usize;
        eval_reads(&rw, k, &log.reads, &mut acc);
        for (wi, wr) in log.writes.iter().enumerate() {
            let res = exec(rw.st(), &u, &rw.owned, &panel, &wr.op);
            if res != wr.result {
                out.fail(
                    format!("C14:not-serializable:result:{}->{}", res, wr.result),
                    format!(
                        "writer #{wi} {:?} returned {} in the concurrent run but {} when the writers are replayed one at a time in lock order {:?}",
                        wr.op,
                        wr.result,
                        res,
                        log.writes.iter().map(|x| format!("{:?}={}", x.op, x.result)).collect::<Vec<_>>()
                    ),
                );
                return out;
            }
            if wr.committed {
                k += 1;
                eval_reads(&rw, k, &log.reads, &mut acc);
            }
        }
        match rw.snapshot() {
            Ok(fin) => {
                if let Some((cat, d)) = diff_snapshots(&fin, &final_conc) {
                    out.fail(format!("C14:not-serializable:final-state:{cat}"), format!("final state differs from the serial replay in lock order (serial -> concurrent): {d}"));
                    return out;
                }
            }
            Err(e) => {
                out.fail(format!("C14:snapshot-error:{e}"), "after the serial replay");
                return out;
            }
        }
        for (ri, r) in log.reads.iter().enumerate() {
            if !acc[ri].iter().any(|(_, res)| *res == r.result) {
                out.fail(
                    format!("C14:read-matches-no-prefix:{}", match r.op { WOp::Query(q) => format!("query{q}"), WOp::GetById(_) => "get".into(), WOp::Has(_) => "has".into(), _ => "?".into() }),
                    format!(
                        "thread {} op {} {:?} returned [{}]; it began after {} commits and returned after {}; the answers for the states after k commits are {:?}; writers in lock order: {:?}",
                        r.worker,
                        r.opi,
                        r.op,
                        r.result,
                        r.c1,
                        r.c2,
                        acc[ri],
                        log.writes.iter().map(|x| format!("{:?}={}{}", x.op, x.result, if x.committed { "" } else { "(no commit)" })).collect::<Vec<_>>()
                    ),
                );
                return out;
            }
        }
        forget_stored(rw.st());
        forget_stored(w.st());
        drop(rw);
        drop(w);

        // ---- one writer, free-running readers: no pausing, no knowledge of where the code takes locks. The write
        // order is the program order of the single writer, so every answer a reader gets must be the answer of the
        // serial replay after some prefix of it, and the prefixes one reader sees never go backwards.
        if c.spin > 0 {
            if let Some(f) = spin_phase(c, &u, &panel, &mut out) {
                out.fail(f.key, f.detail);
                return out;
            }
        }

        // ---- thorough: free-running stress of the same threads
        for round in 0..c.stress_rounds {
            let sw = match fresh_world(&c.initial, &u) {
                Ok(w) => w,
                Err(_) => break,
            };
            let results: Vec<Vec<String>> = std::thread::scope(|scope| {
                let hs: Vec<_> = c
                    .threads
                    .iter()
                    .map(|ops| {
                        let st = sw.st();
                        let (u, owned, panel) = (&u, &sw.owned, &panel);
                        let slot = current_slot();
                        scope.spawn(move || {
                            adopt_slot(slot);
                            ops.iter().map(|op| exec(st, u, owned, panel, op)).collect::<Vec<String>>()
                        })
                    })
                    .collect();
                hs.into_iter().map(|h| h.join().unwrap_or_default()).collect()
            });
            out.label("stress-round");
            forget_stored(sw.st());
            for (t, rs) in results.iter().enumerate() {
                for (i, r) in rs.iter().enumerate() {
                    if r.contains("PANIC") || r.contains("WRONG-BYTES") || r.contains("UNKNOWN") || r == "other-error" || r.starts_with("err:") {
                        out.fail(format!("C14:stress:op-failed:{}", r.split(':').take(2).collect::<Vec<_>>().join(":")), format!("round {round} thread {t} op {i} {:?}: {r}", c.threads[t][i]));
                        return out;
                    }
                }
            }
            // exactly-one-success for events nobody removes
            for (ev, n) in &by_event {
                let removed = c.threads.iter().flatten().any(|op| matches!(op, WOp::Remove(j) if j == ev)) || *ev == 7;
                if *n >= 2 && !removed && u[*ev as usize].kind == 1 && !c.threads.iter().flatten().any(|op| *op == WOp::Store(7)) {
                    let oks: usize = c
                        .threads
                        .iter()
                        .enumerate()
                        .map(|(t, ops)| ops.iter().enumerate().filter(|(i, op)| **op == WOp::Store(*ev) && results[t][*i] == "ok").count())
                        .sum();
                    let pre = c.initial.iter().any(|i| (*i as usize % u.len()) as u8 == *ev);
                    if oks + pre as usize != 1 {
                        out.fail("C14:stress:duplicate-store-succeeded", format!("round {round}: event {ev} submitted {n} times concurrently, {oks} succeeded (stored before: {pre})"));
                        return out;
                    }
                }
            }
            // at most one retrievable event per address
            match sw.retrievable() {
                Ok(r) => {
                    let mut per: BTreeMap<(u16, String, String), usize> = BTreeMap::new();
                    for i in r {
                        if let Some(a) = World::address_of(&u[i]) {
                            *per.entry(a).or_insert(0) += 1;
                        }
                    }
                    if per.values().any(|n| *n > 1) {
                        out.fail("C14:stress:two-events-at-one-address", format!("round {round}"));
                        return out;
                    }
                }
                Err(e) => {
                    out.fail(format!("C14:stress:observe-error:{e}"), format!("round {round}"));
                    return out;
                }
            }
        }
        out
    }
}
