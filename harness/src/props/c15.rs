//! C15 Event references stay valid and unchanged while the store lives.

use crate::dbx::*;
use crate::engine::*;
use crate::model::*;
use pocket_db::Store;
use pocket_types::Id;
use proptest::prelude::*;
use serde::{Deserialize, Serialize};

#[derive(Clone, Debug, Serialize, Deserialize)]
pub enum Step {
    Store { content_len: u32, kind: u16, author: u8, created_at: u64 },
    /// store from another thread
    StoreOnThread { content_len: u32 },
    /// take a reference to the i-th stored event: 0 by offset, 1 by id, 2 from a query
    TakeRef { of: u16, how: u8 },
    /// store filler events until the backing file has grown `times` times
    GrowBy { times: u8, content_len: u32 },
    /// several threads store at the same time (thread 0 stores ephemeral kinds); writers only
    ConcurrentStores { threads: u8, per_thread: u8 },
    /// remove the i-th stored event (u16::MAX: the one stored last); references to it stay held
    Remove { of: u16 },
    /// a deletion request by another author naming the i-th stored event: refused (InvalidDelete) after its bytes
    /// were appended
    RejectedDelete { of: u16 },
    /// another thread stores events until the map grows and is held right after the remap ("es.grown.map");
    /// meanwhile this thread looks stored events up (it either waits for the writer or gets a reference into the
    /// mapping as it is now), then the writer goes on
    ReadDuringGrowth { content_len: u32 },
}

#[derive(Clone, Debug, Serialize, Deserialize)]
pub struct Case {
    pub steps: Vec<Step>,
    /// try to pin the address space right behind the mapping so that growth cannot extend in place
    pub force_move: bool,
    /// the store directory is on the block file system under the verification root instead of tmpfs
    #[serde(default)]
    pub disk: bool,
}

pub struct C15;

struct Held {
    offset: u64,
    addr: usize,
    copy: Vec<u8>,
    how: u8,
    growths_at_take: usize,
}

struct Blocker {
    addr: usize,
}

impl Drop for Blocker {
    fn drop(&mut self) {
        unsafe {
            let _ = libc::munmap(self.addr as *mut libc::c_void, 4096);
        }
    }
}

/// Map one PROT_NONE page exactly at `addr` (never replacing an existing mapping).
fn place_blocker(addr: usize) -> Option<Blocker> {
    const MAP_FIXED_NOREPLACE: libc::c_int = 0x100000;
    let p = unsafe {
        libc::mmap(
            addr as *mut libc::c_void,
            4096,
            libc::PROT_NONE,
            libc::MAP_PRIVATE | libc::MAP_ANONYMOUS | MAP_FIXED_NOREPLACE,
            -1,
            0,
        )
    };
    if p == libc::MAP_FAILED {
        None
    } else if p as usize != addr {
        unsafe {
            let _ = libc::munmap(p, 4096);
        }
        None
    } else {
        Some(Blocker { addr })
    }
}

thread_local! {
    /// set on a writer thread that is to be held at "es.grown.map": (tell the main thread, wait for it)
    static HOLD: std::cell::RefCell<Option<(std::sync::mpsc::Sender<()>, std::sync::mpsc::Receiver<()>)>> = const { std::cell::RefCell::new(None) };
}
static HOOK_ONCE: std::sync::Once = std::sync::Once::new();

fn install_hold_hook() {
    HOOK_ONCE.call_once(|| {
        pocket_db::verif::set_hook(Some(std::sync::Arc::new(|name: &'static str| {
            if name == "es.grown.map" {
                // held once: the first growth of the batch
                let pair = HOLD.with(|h| h.borrow_mut().take());
                if let Some((reached, resume)) = pair {
                    if reached.send(()).is_ok() {
                        let _ = resume.recv_timeout(std::time::Duration::from_secs(5));
                    }
                }
            }
        })));
    });
}

fn addr_of(st: &Store, off: u64) -> Result<(usize, Vec<u8>), String> {
    match guard("Store::get_event_by_offset", || st.get_event_by_offset(off).map(|e| (e.as_bytes().as_ptr() as usize, e.as_bytes().to_vec()))) {
        Ok(Ok(x)) => Ok(x),
        Ok(Err(e)) => Err(format!("get_event_by_offset: {}", crate::props::c01::err_class(&e))),
        Err(f) => Err(f.key),
    }
}

impl Prop for C15 {
    type Case = Case;
    fn id(&self) -> &'static str {
        "C15"
    }
    fn rule(&self) -> String {
        "Cases: sequences of 1..25 steps: store an event (from this or another thread), take a reference to an earlier event (by offset, by id, from a query) remembering its address and a copy of its bytes, or store filler events until the backing file has grown 1..3 more times, or remove a stored event (any, or the one stored last) or submit a deletion request that is refused after its bytes were appended - references taken before stay held; or (one step in 25) let another thread grow the map, hold it right after the remap and look stored events up from this thread meanwhile. 30% of the sequences run in a directory on the block file system under the verification root (ext4 here), the others on tmpfs. In 80% of the cases one PROT_NONE page is mapped (MAP_FIXED_NOREPLACE) directly behind the current mapping before each store, so that growth cannot extend in place and a moving remap is forced deterministically instead of depending on address-space luck. Oracle after every step, for every held reference: a fresh get_event_by_offset of the same offset has the same address, and the fresh bytes equal the copy taken when the reference was obtained; the stale reference itself is never dereferenced. Non-trivial: >= 1 reference held across >= 1 growth.".into()
    }
    fn assumptions(&self) -> Vec<String> {
        vec![
            "Address identity of a fresh lookup is used as the observable for 'the old reference is still valid': if the mapping moved, the old address has been unmapped by mremap.".into(),
            "The stale reference is never dereferenced (it would be a use-after-unmap inside the harness).".into(),
        ]
    }
    fn cases(&self, tier: Tier) -> u32 {
        tier.pick(1_500, 20_000)
    }
    fn release_fraction(&self, tier: Tier) -> f64 {
        tier.pick(0.3, 0.1)
    }
    fn max_shrink_iters(&self) -> u32 {
        300
    }
    fn strategy(&self, _tier: Tier) -> BoxedStrategy<Case> {
        let step = prop_oneof![
            6 => (content_len_strategy(), prop::sample::select(vec![1u16, 7, 30023, 10002]), 0u8..4, 100u64..116)
                .prop_map(|(content_len, kind, author, created_at)| Step::Store { content_len, kind, author, created_at }),
            1 => content_len_strategy().prop_map(|content_len| Step::StoreOnThread { content_len }),
            4 => (any::<u16>(), 0u8..3).prop_map(|(of, how)| Step::TakeRef { of, how }),
            2 => (1u8..4, prop::sample::select(if cfg!(debug_assertions) { vec![200u32, 900, 3000] } else { vec![400_000u32, 1_500_000, 3_000_000] })).prop_map(|(times, content_len)| Step::GrowBy { times, content_len }),
            1 => (2u8..5, 8u8..40).prop_map(|(threads, per_thread)| Step::ConcurrentStores { threads, per_thread }),
            2 => prop_oneof![1 => any::<u16>(), 1 => Just(u16::MAX)].prop_map(|of| Step::Remove { of }),
            1 => any::<u16>().prop_map(|of| Step::RejectedDelete { of }),
            1 => prop::sample::select(if cfg!(debug_assertions) { vec![300u32, 900, 2100] } else { vec![500_000u32, 2_000_000, 4_200_000] }).prop_map(|content_len| Step::ReadDuringGrowth { content_len }),
        ];
        (prop::collection::vec(step, 1..25), prop::bool::weighted(0.8), prop::bool::weighted(0.3))
            .prop_map(|(steps, force_move, disk)| Case { steps, force_move, disk })
            .boxed()
    }
    fn label_floors(&self) -> Vec<(&'static str, f64)> {
        vec![("held-across-growth", 0.4)]
    }
    fn check(&self, c: &Case) -> Outcome {
        let mut out = Outcome::default();
        out.label(if c.disk { "on-block-filesystem" } else { "on-tmpfs" });
        let mut w = match World::new_on(0, c.disk) {
            Ok(w) => w,
            Err(f) => {
                out.fail(format!("C15:{}", f.key), f.detail);
                return out;
            }
        };
        let mut held: Vec<Held> = Vec::new();
        let mut moved: Option<String> = None;
        let mut stored: Vec<(u64, usize)> = Vec::new(); // (offset, event index)
        let mut blockers: Vec<Blocker> = Vec::new();
        let mut seq = 0u64;
        let mut forced = 0usize;

        // one store, with the blocker placed first
        let mut do_store = |w: &mut World, blockers: &mut Vec<Blocker>, content_len: u32, kind: u16, a: u8, created_at: u64, on_thread: bool, forced: &mut usize| -> Result<Option<(u64, usize)>, Fail> {
            seq += 1;
            let ge = GenEvent {
                author: a,
                kind,
                created_at,
                tags: vec![vec!["t".to_string(), format!("s{seq}")]],
                content_len,
                idc: IdChoice::Hash,
                many: 0,
            };
            let i = w.intern(ge.to_model(), Some(&ge));
            if c.force_move {
                // base of the mapping = address of any event minus its offset
                if let Some((off, _)) = w.offsets.iter().next().map(|(o, i)| (*o, *i)) {
                    if let Ok((addr, _)) = addr_of(w.st(), off) {
                        let base = addr - off as usize;
                        let len = w.map_len() as usize;
                        let end = (base + len + 4095) & !4095;
                        if let Some(b) = place_blocker(end) {
                            blockers.push(b);
                            *forced += 1;
                        }
                    }
                }
            }
            let len_before = w.map_len();
            let res = if on_thread {
                let st = w.st();
                let ev = &w.owned[i];
                let slot = current_slot();
                let r = std::thread::scope(|s| {
                    s.spawn(|| {
                        adopt_slot(slot);
                        guard("Store::store_event", || st.store_event(ev))
                    })
                    .join()
                });
                match r {
                    Ok(Ok(Ok(off))) => Res::Ok(off),
                    Ok(Ok(Err(e))) => classify_err(&e),
                    Ok(Err(f)) => Res::Panic(f.key),
                    Err(_) => Res::Panic("thread-join".into()),
                }
            } else {
                w.store_idx(i)
            };
            if on_thread && w.map_len() > len_before {
                w.growths += 1;
                w.grew = true;
            }
            match res {
                Res::Ok(off) => {
                    let _ = w.offsets.insert(off, i);
                    Ok(Some((off, i)))
                }
                Res::Panic(k) => Err(Fail::new(format!("C15:{k}"), "store panicked")),
                Res::Other(e) if e.contains("I/O") => Err(Fail::new("INCONCLUSIVE:map-could-not-grow", e)),
                _ => Ok(None),
            }
        };

        for (stepno, step) in c.steps.iter().enumerate() {
            let growths_before = w.growths;
            match step {
                Step::Store { content_len, kind, author: a, created_at } => match do_store(&mut w, &mut blockers, *content_len, *kind, *a, *created_at, false, &mut forced) {
                    Ok(Some(x)) => stored.push(x),
                    Ok(None) => {}
                    Err(f) => {
                        if f.key.starts_with("INCONCLUSIVE") {
                            out.label("inconclusive:map-could-not-grow");
                            return out;
                        }
                        out.fail(f.key, f.detail);
                        return out;
                    }
                },
                Step::StoreOnThread { content_len } => match do_store(&mut w, &mut blockers, *content_len, 1, 1, 111, true, &mut forced) {
                    Ok(Some(x)) => {
                        stored.push(x);
                        out.label("store-from-other-thread");
                    }
                    Ok(None) => {}
                    Err(f) => {
                        if f.key.starts_with("INCONCLUSIVE") {
                            out.label("inconclusive:map-could-not-grow");
                            return out;
                        }
                        out.fail(f.key, f.detail);
                        return out;
                    }
                },
                Step::GrowBy { times, content_len } => {
                    let target = w.growths + *times as usize;
                    let mut guard_n = 0;
                    while w.growths < target && guard_n < 200 {
                        guard_n += 1;
                        let before = w.map_len();
                        match do_store(&mut w, &mut blockers, *content_len, 1, 2, 100 + (guard_n % 10) as u64, false, &mut forced) {
                            Ok(Some(x)) => stored.push(x),
                            Ok(None) => {}
                            Err(f) => {
                                if f.key.starts_with("INCONCLUSIVE") {
                                    out.label("inconclusive:map-could-not-grow");
                                    return out;
                                }
                                out.fail(f.key, f.detail);
                                return out;
                            }
                        }
                        if w.map_len() > before {
                            // store_idx already counted it
                        }
                    }
                }
                Step::ConcurrentStores { threads, per_thread } => {
                    out.label("concurrent-stores");
                    let mut batches: Vec<Vec<usize>> = Vec::new();
                    let victim: Option<MEvent> = stored.iter().map(|(_, i)| w.events[*i].clone()).find(|e| e.kind == 1);
                    for t in 0..*threads {
                        let mut b = Vec::new();
                        for k in 0..*per_thread {
                            if let (1, true, Some(v)) = (t, *threads >= 3, victim.as_ref()) {
                                // thread 1 (of three or more): deletion requests by somebody else, refused after their
                                // bytes were appended
                                let requester = (0u8..4).map(author).find(|a| *a != v.pubkey).unwrap();
                                let m = MEvent {
                                    id: hex(&crate::sha256::sha256(format!("c15-cdel-{stepno}-{k}").as_bytes())),
                                    pubkey: requester,
                                    sig: "00".repeat(64),
                                    kind: 5,
                                    created_at: 400 + k as u64,
                                    tags: vec![vec!["e".to_string(), v.id.clone()]],
                                    content: String::new(),
                                };
                                b.push(w.intern(m, None));
                                continue;
                            }
                            let ge = GenEvent {
                                author: t % 4,
                                kind: if t == 0 { 20000 + (k as u16 % 3) } else { 1 },
                                created_at: 300 + k as u64,
                                tags: vec![vec!["t".to_string(), format!("c15-{stepno}-{t}-{k}")]],
                                content_len: 40 + ((k as u32 * 53 + t as u32 * 17) % 500),
                                idc: IdChoice::Hash,
                                many: 0,
                            };
                            b.push(w.intern(ge.to_model(), Some(&ge)));
                        }
                        batches.push(b);
                    }
                    let len_before = w.map_len();
                    let results: Vec<Vec<(usize, Res)>> = {
                        let st = w.st();
                        let owned = &w.owned;
                        let slot = current_slot();
                        std::thread::scope(|scope| {
                            let hs: Vec<_> = batches
                                .iter()
                                .map(|b| {
                                    scope.spawn(move || {
                                        adopt_slot(slot);
                                        b.iter()
                                            .map(|i| {
                                                let r = match guard("Store::store_event", || st.store_event(&owned[*i])) {
                                                    Ok(Ok(off)) => Res::Ok(off),
                                                    Ok(Err(e)) => classify_err(&e),
                                                    Err(f) => Res::Panic(f.key),
                                                };
                                                (*i, r)
                                            })
                                            .collect::<Vec<_>>()
                                    })
                                })
                                .collect();
                            hs.into_iter().map(|h| h.join().unwrap_or_default()).collect()
                        })
                    };
                    let grown = ((w.map_len().saturating_sub(len_before)) / if cfg!(debug_assertions) { 2048 } else { 4096 * 1024 }) as usize;
                    if grown > 0 {
                        w.growths += grown.min(8);
                        w.grew = true;
                    }
                    for (i, r) in results.into_iter().flatten() {
                        match r {
                            Res::Ok(off) => {
                                let _ = w.offsets.insert(off, i);
                                stored.push((off, i));
                            }
                            Res::Panic(k) => {
                                out.fail(format!("C15:{k}"), "concurrent stores");
                                return out;
                            }
                            Res::Other(e) if e.contains("Out of space") || e.contains("I/O") => {
                                out.fail(format!("C15:concurrent-store-error:{e}"), "a store failed while other threads were storing");
                                return out;
                            }
                            _ => {}
                        }
                    }
                }
                Step::Remove { of } => {
                    if stored.is_empty() {
                        continue;
                    }
                    let (_, i) = if *of == u16::MAX { *stored.last().unwrap() } else { stored[idx16(*of, stored.len())] };
                    let id = w.events[i].id.clone();
                    if let Res::Panic(k) = w.remove_id(&id) {
                        out.fail(format!("C15:{k}"), format!("step {stepno}: remove"));
                        return out;
                    }
                    out.label("remove-step");
                }
                Step::RejectedDelete { of } => {
                    if stored.is_empty() {
                        continue;
                    }
                    let (_, i) = stored[idx16(*of, stored.len())];
                    let victim = w.events[i].clone();
                    // a requester that is not the author
                    let requester = (0u8..4).map(author).find(|a| *a != victim.pubkey).unwrap();
                    let m = MEvent {
                        id: hex(&crate::sha256::sha256(format!("c15-del-{stepno}").as_bytes())),
                        pubkey: requester,
                        sig: "00".repeat(64),
                        kind: 5,
                        created_at: 200,
                        tags: vec![vec!["e".to_string(), victim.id.clone()]],
                        content: String::new(),
                    };
                    let j = w.intern(m, None);
                    match w.store_idx(j) {
                        Res::Panic(k) => {
                            out.fail(format!("C15:{k}"), format!("step {stepno}: rejected deletion request"));
                            return out;
                        }
                        Res::InvalidDelete => out.label("rejected-delete-step"),
                        Res::Ok(off) => {
                            let _ = w.offsets.insert(off, j);
                            stored.push((off, j));
                        }
                        _ => {}
                    }
                }
                Step::ReadDuringGrowth { content_len } => {
                    if stored.is_empty() {
                        continue;
                    }
                    install_hold_hook();
                    // the writer's events
                    let mut batch = Vec::new();
                    for k in 0..(if cfg!(debug_assertions) { 12u32 } else { 3u32 }) {
                        let ge = GenEvent {
                            author: 2,
                            kind: 1,
                            created_at: 500 + k as u64,
                            tags: vec![vec!["t".to_string(), format!("c15-rg-{stepno}-{k}")]],
                            content_len: *content_len,
                            idc: IdChoice::Hash,
                            many: 0,
                        };
                        batch.push(w.intern(ge.to_model(), Some(&ge)));
                    }
                    let probes: Vec<(u64, usize)> = stored.iter().rev().take(3).cloned().collect();
                    let len_before = w.map_len();
                    let (reached_tx, reached_rx) = std::sync::mpsc::channel::<()>();
                    let (resume_tx, resume_rx) = std::sync::mpsc::channel::<()>();
                    let slot = current_slot();
                    let (new_stored, reads, held_writer): (Vec<(u64, usize)>, Option<Vec<Result<(usize, Vec<u8>), String>>>, bool) = {
                        let st = w.st();
                        let owned = &w.owned;
                        std::thread::scope(|scope| {
                            let batch = &batch;
                            let writer = scope.spawn(move || {
                                adopt_slot(slot);
                                HOLD.with(|h| *h.borrow_mut() = Some((reached_tx, resume_rx)));
                                let mut done = Vec::new();
                                for i in batch {
                                    if let Ok(Ok(off)) = guard("Store::store_event", || st.store_event(&owned[*i])) {
                                        done.push((off, *i));
                                    }
                                }
                                HOLD.with(|h| *h.borrow_mut() = None);
                                done
                            });
                            // wait until the writer is held right after a remap (or finishes without growing)
                            let held_writer = reached_rx.recv_timeout(std::time::Duration::from_secs(3)).is_ok();
                            let mut reads = None;
                            if held_writer {
                                let (tx, rx) = std::sync::mpsc::channel();
                                let probes = &probes;
                                let _reader = scope.spawn(move || {
                                    adopt_slot(slot);
                                    let r: Vec<Result<(usize, Vec<u8>), String>> = probes.iter().map(|(off, _)| addr_of(st, *off)).collect();
                                    let _ = tx.send(r);
                                });
                                // the reader either answers at once or waits for a lock the writer holds
                                reads = rx.recv_timeout(std::time::Duration::from_millis(150)).ok();
                                let _ = resume_tx.send(());
                                if reads.is_none() {
                                    reads = rx.recv_timeout(std::time::Duration::from_secs(5)).ok();
                                }
                            }
                            let done = writer.join().unwrap_or_default();
                            (done, reads, held_writer)
                        })
                    };
                    let grown = ((w.map_len().saturating_sub(len_before)) / if cfg!(debug_assertions) { 2048 } else { 4096 * 1024 }) as usize;
                    if grown > 0 {
                        w.growths += grown.min(8);
                        w.grew = true;
                    }
                    for (off, i) in new_stored {
                        let _ = w.offsets.insert(off, i);
                        stored.push((off, i));
                    }
                    if held_writer {
                        out.label("read-while-writer-held-after-remap");
                        match reads {
                            Some(rs) => {
                                for ((off, i), r) in probes.iter().zip(rs.iter()) {
                                    match r {
                                        Ok((_, bytes)) if bytes == w.owned[*i].as_bytes() => {}
                                        Ok(_) => {
                                            out.fail("C15:reference-is-not-the-event", format!("step {stepno}: a lookup of offset {off} made while another thread was growing the map returned other bytes"));
                                            return out;
                                        }
                                        Err(e) => {
                                            out.fail(format!("C15:lookup-error:{e}"), format!("step {stepno}: offset {off}, looked up while another thread was growing the map"));
                                            return out;
                                        }
                                    }
                                }
                            }
                            None => out.label("inconclusive:reader-did-not-return"),
                        }
                    }
                }
                Step::TakeRef { of, how } => {
                    if stored.is_empty() {
                        continue;
                    }
                    let (off, i) = stored[idx16(*of, stored.len())];
                    let st = w.st();
                    let taken: Result<Option<(usize, Vec<u8>)>, String> = match how % 3 {
                        0 => addr_of(st, off).map(Some),
                        1 => {
                            let id = Id::from_bytes(arr32(&w.events[i].id));
                            match guard("Store::get_event_by_id", || st.get_event_by_id(id).map(|o| o.map(|e| (e.as_bytes().as_ptr() as usize, e.as_bytes().to_vec())))) {
                                Ok(Ok(x)) => Ok(x),
                                Ok(Err(e)) => Err(e.to_string()),
                                Err(f) => Err(f.key),
                            }
                        }
                        _ => {
                            let f = MFilter { ids: vec![w.events[i].id.clone()], ..Default::default() };
                            match f.to_owned_filter() {
                                Ok(of) => match guard("Store::find_events", || {
                                    st.find_events(&of, true, 0, 0, |_| pocket_db::ScreenResult::Match).map(|(v, _)| v.first().map(|e| (e.as_bytes().as_ptr() as usize, e.as_bytes().to_vec())))
                                }) {
                                    Ok(Ok(x)) => Ok(x),
                                    Ok(Err(e)) => Err(e.to_string()),
                                    Err(f) => Err(f.key),
                                },
                                Err(e) => Err(e),
                            }
                        }
                    };
                    match taken {
                        Ok(Some((addr, copy))) => {
                            if copy != w.owned[i].as_bytes() {
                                // replaced events are found by id no more; a reference obtained now must still be the event
                                out.fail("C15:reference-is-not-the-event", format!("step {stepno}: a reference obtained (how={how}) for the event at offset {off} has other bytes"));
                                return out;
                            }
                            // by id / query may return the same event stored at another offset (resubmission): find its offset by address
                            let _ = off;
                            let base_known = addr_of(st, off).ok();
                            let offset = match base_known {
                                Some((a0, _)) if a0 == addr => off,
                                Some((a0, _)) => {
                                    // same mapping: translate
                                    let base = a0 - off as usize;
                                    (addr - base) as u64
                                }
                                None => off,
                            };
                            held.push(Held { offset, addr, copy, how: *how % 3, growths_at_take: w.growths });
                        }
                        Ok(None) => {}
                        Err(e) => {
                            out.fail(format!("C15:lookup-error:{e}"), format!("step {stepno}"));
                            return out;
                        }
                    }
                }
            }
            let _ = growths_before;
            // oracle: every held reference still denotes the same bytes at the same address.
            // A moved mapping (the open known finding) is remembered and reported at the end only, so that it
            // cannot mask a changed byte later in the same sequence.
            for h in held.iter_mut() {
                let crossed = w.growths > h.growths_at_take;
                if crossed {
                    out.nontrivial = true;
                    out.label("held-across-growth");
                }
                match addr_of(w.st(), h.offset) {
                    Ok((addr, bytes)) => {
                        if bytes != h.copy {
                            out.fail(
                                "C15:bytes-changed-at-held-reference",
                                format!("step {stepno}: the event at offset {} no longer has the bytes it had when the reference (how={}) was taken", h.offset, h.how),
                            );
                            return out;
                        }
                        if addr != h.addr {
                            if moved.is_none() {
                                moved = Some(format!(
                                    "step {stepno}: the event at offset {} was at {:#x} when the reference (how={}) was taken and is at {:#x} now ({} growth step(s) in between, {} forced): the old reference points into an unmapped region",
                                    h.offset,
                                    h.addr,
                                    h.how,
                                    addr,
                                    w.growths - h.growths_at_take,
                                    forced
                                ));
                            }
                            // follow the mapping, so that the byte clause keeps being checked and a later move counts again
                            h.addr = addr;
                            h.growths_at_take = w.growths;
                        }
                    }
                    Err(e) => {
                        out.fail(format!("C15:offset-unreadable:{e}"), format!("step {stepno}: offset {}", h.offset));
                        return out;
                    }
                }
            }
        }
        if let Some(d) = moved {
            out.fail("C15:mapping-moved-on-growth", d);
        }
        if forced > 0 {
            out.label("move-forced");
        }
        drop(blockers);
        out
    }
}
