//! C10 A deletion request can never remove another author's events.

use crate::dbx::*;
use crate::engine::*;
use crate::model::*;
use pocket_types::{Addr, Kind, Pubkey};
use proptest::prelude::*;
use serde::{Deserialize, Serialize};
use std::collections::BTreeMap;

#[derive(Clone, Debug, Serialize, Deserialize)]
pub struct Case {
    pub ops: Vec<Op>,
}

pub struct C10;

impl Prop for C10 {
    type Case = Case;
    fn id(&self) -> &'static str {
        "C10"
    }
    fn rule(&self) -> String {
        "Cases: histories of 0..30 (thorough 0..100) operations in which four authors store regular, replaceable and parameterised events and any of them submits kind-5 requests with 1..4 tags mixing own / foreign / absent / malformed 'e' and 'a' targets (the foreign stored target at any position), with arbitrary timestamps, at any point of the history. Oracle for every kind-5 store (whatever it returns): every event not authored by the requester that was retrievable before is still retrievable and byte-identical; event_is_deleted of every such event and naddr_is_deleted_asof of every address belonging to another author are unchanged; and a victim that is afterwards removed and resubmitted is not refused as deleted because of that request. Non-trivial: a request with >= 2 tags whose foreign stored target comes after >= 1 own effective target.".into()
    }
    fn assumptions(&self) -> Vec<String> {
        vec!["Only events already stored (retrievable) when the request arrives are protected; markers on ids the store has never seen are outside this property.".into()]
    }
    fn cases(&self, tier: Tier) -> u32 {
        tier.pick(4000, 60000)
    }
    fn strategy(&self, tier: Tier) -> BoxedStrategy<Case> {
        let w = OpWeights {
            store: 10,
            resubmit: 1,
            version: 2,
            remove: 1,
            delete_req: 10,
            delete_own: 2,
            vanish: 0,
            reopen: 0,
            rebuild: 0,
            extra: 0,
            pressure: 3,
            mass_delete: 0,
            big: 0,
        };
        let cfg = EvCfg {
            kind_weights: [3, 3, 4, 0, 1],
            max_tags: 2,
            ..EvCfg::default()
        };
        // plus events that are "about" or "addressed to" another pool author (gift wraps and their near misses): still
        // not that author's to delete
        let gw = (0u8..4, 0u8..4, 0u8..10, 100u64..116).prop_map(|(a, t, s, time)| Op::Store(crate::props::c18::giftwrap(a, t, s, time)));
        prop::collection::vec(prop_oneof![8 => op_strategy(w, cfg), 1 => gw], 0..=tier.pick(30, 100)).prop_map(|ops| Case { ops }).boxed()
    }
    fn label_floors(&self) -> Vec<(&'static str, f64)> {
        vec![("request-names-foreign-stored", 0.3), ("foreign-after-own", 0.08)]
    }
    fn release_fraction(&self, tier: Tier) -> f64 {
        tier.pick(0.3, 0.1)
    }
    fn max_shrink_iters(&self) -> u32 {
        400
    }
    fn check(&self, c: &Case) -> Outcome {
        let mut out = Outcome::default();
        let mut w = match World::new(0) {
            Ok(w) => w,
            Err(f) => {
                out.fail(format!("C10:{}", f.key), f.detail);
                return out;
            }
        };
        for (stepno, op) in c.ops.iter().enumerate() {
            let Some(conc) = w.concretise(op) else { continue };
            let is_del = matches!(conc.inner(), Concrete::Store(i) if w.events[*i].kind == 5);
            if !is_del {
                let step = w.apply(&conc);
                if let Res::Panic(k) = &step.res {
                    out.fail(format!("C10:{k}"), format!("step {stepno} {:?}", op));
                    return out;
                }
                continue;
            }
            let Concrete::Store(ri) = conc.inner().clone() else { unreachable!() };
            if conc.under_pressure() {
                out.label("request-under-reader-exhaustion");
            }
            let req = w.events[ri].clone();
            let r_before = match w.retrievable() {
                Ok(r) => r,
                Err(e) => {
                    out.fail(format!("C10:observe-error:{e}"), format!("step {stepno}"));
                    return out;
                }
            };
            // markers of everything foreign before
            let st = w.st();
            let foreign: Vec<usize> = r_before.iter().copied().filter(|i| w.events[*i].pubkey != req.pubkey).collect();
            let mut del_before: BTreeMap<usize, bool> = BTreeMap::new();
            let mut addr_before: BTreeMap<(u16, String, String), Option<u64>> = BTreeMap::new();
            let asof = |a: &(u16, String, String)| -> Option<u64> {
                let pa = Addr { kind: Kind::from_u16(a.0), author: Pubkey::from_bytes(arr32(&a.1)), d: a.2.as_bytes().to_vec() };
                st.naddr_is_deleted_asof(&pa).ok().flatten().map(|t| t.as_u64())
            };
            for i in &foreign {
                let _ = del_before.insert(*i, st.event_is_deleted(w.events[*i].pid()).unwrap_or(false));
                if let Some(a) = World::address_of(&w.events[*i]) {
                    let v = asof(&a);
                    let _ = addr_before.insert(a, v);
                }
            }
            // classify the request
            let mut own_effective_seen = false;
            let mut names_foreign = false;
            for t in &req.tags {
                if t.len() < 2 {
                    continue;
                }
                let target_idx = if t[0] == "e" { w.by_id.get(&t[1].to_lowercase()).copied() } else { None };
                let is_foreign_stored = match (&t[0][..], target_idx) {
                    ("e", Some(j)) => r_before.contains(&j) && w.events[j].pubkey != req.pubkey,
                    ("a", _) => parse_addr(&t[1]).map(|a| a.1 != req.pubkey && foreign.iter().any(|j| World::address_of(&w.events[*j]).map(|x| x == a).unwrap_or(false))).unwrap_or(false),
                    _ => false,
                };
                let is_own_effective = match (&t[0][..], target_idx) {
                    ("e", Some(j)) => r_before.contains(&j) && w.events[j].pubkey == req.pubkey,
                    ("a", _) => parse_addr(&t[1]).map(|a| a.1 == req.pubkey).unwrap_or(false),
                    _ => false,
                };
                if is_foreign_stored {
                    names_foreign = true;
                    out.label("request-names-foreign-stored");
                    if own_effective_seen && req.tags.len() >= 2 {
                        out.label("foreign-after-own");
                        out.nontrivial = true;
                    }
                }
                if is_own_effective {
                    own_effective_seen = true;
                }
            }
            let step = w.apply(&conc);
            if let Res::Panic(k) = &step.res {
                out.fail(format!("C10:{k}"), format!("step {stepno} {:?}", op));
                return out;
            }
            out.label(format!("request:{}", step.res.class()));
            let st = w.st();
            for i in &foreign {
                let v = &w.events[*i];
                match w.get_by_id(&v.id) {
                    Ok(Some(b)) if b == w.owned[*i].as_bytes() => {}
                    Ok(_) => {
                        out.fail(
                            format!("C10:foreign-event-removed:{}", step.res.class()),
                            format!("step {stepno}: deletion request {} by {}.. (result {:?}) made {} by another author unretrievable", req.short(), &req.pubkey[..4], step.res, v.short()),
                        );
                        return out;
                    }
                    Err(e) => {
                        out.fail(format!("C10:observe-error:{e}"), format!("step {stepno}"));
                        return out;
                    }
                }
                let d = st.event_is_deleted(v.pid()).unwrap_or(false);
                if d != del_before[i] {
                    out.fail("C10:foreign-id-marked-deleted", format!("step {stepno}: request by {}.. changed event_is_deleted of {} to {d}", &req.pubkey[..4], v.short()));
                    return out;
                }
            }
            let asof2 = |a: &(u16, String, String)| -> Option<u64> {
                let pa = Addr { kind: Kind::from_u16(a.0), author: Pubkey::from_bytes(arr32(&a.1)), d: a.2.as_bytes().to_vec() };
                st.naddr_is_deleted_asof(&pa).ok().flatten().map(|t| t.as_u64())
            };
            for (a, before) in &addr_before {
                let after = asof2(a);
                if after != *before {
                    out.fail("C10:foreign-address-marked-deleted", format!("step {stepno}: request by {}.. changed naddr_is_deleted_asof of {}:{}..: {:?} -> {:?}", &req.pubkey[..4], a.0, &a.1[..4], before, after));
                    return out;
                }
            }
            if names_foreign {
                // probe at once: remove + resubmit each foreign event; it must not be refused as deleted
                for i in foreign.clone() {
                    let v = w.events[i].clone();
                    let _ = w.remove_id(&v.id);
                    let res = w.store_idx(i);
                    if res == Res::Deleted {
                        out.fail(
                            "C10:victim-refused-as-deleted",
                            format!("step {stepno}: after the request by {}.. (result {:?}), {} by another author was removed and resubmitted and the store says Deleted", &req.pubkey[..4], step.res, v.short()),
                        );
                        return out;
                    }
                    if !res.is_ok() {
                        out.label(format!("probe:{}", res.class()));
                    }
                }
            }
        }
        out
    }
}
