//! C03 All parsers are total and memory-safe on arbitrary bytes and buffer sizes.

use crate::engine::*;
use crate::jsonx::*;
use crate::model::*;
use pocket_types::json::json_unescape;
use pocket_types::{Addr, Event, Filter, Hll8, Id, Pubkey, Sig, Tags};
use proptest::prelude::*;
use serde::{Deserialize, Serialize};

#[derive(Clone, Copy, Debug, Serialize, Deserialize, PartialEq, Eq)]
pub enum Target {
    Event,
    Filter,
    Tags,
    Unescape,
    HexId,
    HexPubkey,
    HexSig,
    Hll,
    Addr,
}

impl Target {
    pub fn name(&self) -> &'static str {
        match self {
            Target::Event => "Event::from_json",
            Target::Filter => "Filter::from_json",
            Target::Tags => "Tags::from_json",
            Target::Unescape => "json_unescape",
            Target::HexId => "Id::read_hex",
            Target::HexPubkey => "Pubkey::read_hex",
            Target::HexSig => "Sig::read_hex",
            Target::Hll => "Hll8::from_hex_string",
            Target::Addr => "Addr::try_from_bytes",
        }
    }
}

#[derive(Clone, Debug, Serialize, Deserialize)]
pub struct Case {
    pub target: Target,
    pub input: Bytes,
    pub outlen: u32,
    pub fill: u8,
    /// true when the input is an unmodified valid text
    pub pristine: bool,
}

pub struct C03;

const CANARY: usize = 64;

fn max_depth(b: &[u8]) -> usize {
    let mut d = 0usize;
    let mut m = 0usize;
    for c in b {
        match c {
            b'[' | b'{' => {
                d += 1;
                m = m.max(d);
            }
            b']' | b'}' => d = d.saturating_sub(1),
            _ => {}
        }
    }
    m
}

fn fixed_event_for_match() -> pocket_types::OwnedEvent {
    crate::props::c01::fixed_event().to_owned_event().unwrap()
}

/// Runs one target on one input; Err(String) = an oracle failure other than a panic.
pub fn exercise(target: Target, input: &[u8], outlen: usize, fill: u8) -> Result<&'static str, String> {
    let mut backing = vec![fill; outlen + CANARY];
    for b in backing[outlen..].iter_mut() {
        *b = 0xA5;
    }
    let verdict: &'static str;
    {
        let (buf, _) = backing.split_at_mut(outlen);
        match target {
            Target::Event => match Event::from_json(input, buf) {
                Ok((n, ev)) => {
                    if n > input.len() {
                        return Err(format!("consumed {} > input length {}", n, input.len()));
                    }
                    if ev.len() > outlen {
                        return Err(format!("event length {} > buffer {}", ev.len(), outlen));
                    }
                    // accessor panel
                    let _ = ev.id();
                    let _ = ev.pubkey();
                    let _ = ev.sig();
                    let _ = ev.kind();
                    let _ = ev.created_at();
                    let _ = ev.content().len();
                    let tags = ev.tags().map_err(|e| format!("tags() of an accepted event fails: {e}"))?;
                    let mut n_strings = 0usize;
                    for t in tags.iter() {
                        for s in t {
                            n_strings += s.len();
                        }
                    }
                    for i in 0..tags.count().min(8) + 1 {
                        for j in 0..4 {
                            let _ = tags.get_string(i, j);
                        }
                    }
                    let _ = tags.get_value(b"d");
                    let _ = tags.matches(b"e", b"x");
                    let _ = n_strings;
                    let j = ev.as_json().map_err(|e| format!("as_json of an accepted event fails: {e}"))?;
                    let _ = j.len();
                    let _ = ev.verify();
                    let _ = ev.is_expired();
                    let o = ev.to_owned();
                    let _ = format!("{}", ev);
                    let _ = o.len();
                    let mut cp = vec![0u8; ev.len()];
                    let _ = ev.copy(&mut cp);
                    verdict = "ok";
                }
                Err(_) => verdict = "err",
            },
            Target::Filter => match Filter::from_json(input, buf) {
                Ok((n, m, f)) => {
                    if n > input.len() {
                        return Err(format!("consumed {} > input length {}", n, input.len()));
                    }
                    if m > outlen || f.len() > outlen {
                        return Err(format!("filter length {} > buffer {}", m, outlen));
                    }
                    let mut c = 0usize;
                    for i in f.ids() {
                        c += i.as_slice().len();
                    }
                    for a in f.authors() {
                        c += a.as_slice().len();
                    }
                    for k in f.kinds() {
                        c += k.as_u16() as usize;
                    }
                    let _ = c;
                    let _ = (f.limit(), f.since(), f.until(), f.num_ids(), f.num_authors(), f.num_kinds(), f.completes());
                    let tags = f.tags().map_err(|e| format!("tags() of an accepted filter fails: {e}"))?;
                    for t in tags.iter() {
                        for s in t {
                            let _ = s.len();
                        }
                    }
                    let _ = f.as_json().map_err(|e| format!("as_json of an accepted filter fails: {e}"))?;
                    let _ = f.hyperloglog_offset();
                    let fe = fixed_event_for_match();
                    let _ = f.event_matches(&fe);
                    let _ = format!("{}", f);
                    let _ = f.to_owned();
                    verdict = "ok";
                }
                Err(_) => verdict = "err",
            },
            Target::Tags => match Tags::from_json(input, buf) {
                Ok((n, tags)) => {
                    if n > input.len() {
                        return Err(format!("consumed {} > input length {}", n, input.len()));
                    }
                    if tags.as_bytes().len() > outlen {
                        return Err("tags longer than buffer".into());
                    }
                    for t in tags.iter() {
                        for s in t {
                            let _ = s.len();
                        }
                    }
                    for i in 0..tags.count().min(8) + 1 {
                        for j in 0..4 {
                            let _ = tags.get_string(i, j);
                        }
                    }
                    let _ = tags.as_json();
                    let _ = tags.get_value(b"d");
                    let _ = tags.matches(b"e", b"x");
                    let _ = format!("{}", tags);
                    let _ = tags.to_owned();
                    let _ = tags.is_empty();
                    verdict = "ok";
                }
                Err(_) => verdict = "err",
            },
            Target::Unescape => match json_unescape(input, buf) {
                Ok((n, m)) => {
                    if n > input.len() {
                        return Err(format!("consumed {} > input length {}", n, input.len()));
                    }
                    if m > outlen {
                        return Err(format!("wrote {} > buffer {}", m, outlen));
                    }
                    verdict = "ok";
                }
                Err(_) => verdict = "err",
            },
            Target::HexId => match Id::read_hex(input) {
                Ok(id) => {
                    let _ = id.as_hex_string();
                    let _ = format!("{}", id);
                    verdict = "ok";
                }
                Err(_) => verdict = "err",
            },
            Target::HexPubkey => match Pubkey::read_hex(input) {
                Ok(pk) => {
                    let _ = pk.as_hex_string();
                    let _ = format!("{}", pk);
                    verdict = "ok";
                }
                Err(_) => verdict = "err",
            },
            Target::HexSig => match Sig::read_hex(input) {
                Ok(s) => {
                    let _ = format!("{}", s);
                    verdict = "ok";
                }
                Err(_) => verdict = "err",
            },
            Target::Hll => match std::str::from_utf8(input) {
                Ok(s) => match Hll8::from_hex_string(s) {
                    Ok(h) => {
                        let e = h.estimate_count();
                        let _ = e;
                        let back = h.to_hex_string();
                        if !back.eq_ignore_ascii_case(s) {
                            return Err("hex export differs from the imported hex".into());
                        }
                        verdict = "ok";
                    }
                    Err(_) => verdict = "err",
                },
                Err(_) => verdict = "skip-non-utf8",
            },
            Target::Addr => match Addr::try_from_bytes(input) {
                Ok(a) => {
                    let _ = (a.kind, a.author, a.d.len());
                    verdict = "ok";
                }
                Err(_) => verdict = "err",
            },
        }
    }
    if !backing[outlen..].iter().all(|b| *b == 0xA5) {
        return Err("canary after the output buffer was modified".into());
    }
    Ok(verdict)
}

pub fn run_case_inproc(c: &Case) -> Result<&'static str, Fail> {
    let input = c.input.to_vec();
    let r = guard(c.target.name(), || exercise(c.target, &input, c.outlen as usize, c.fill))?;
    r.map_err(|e| Fail::new(format!("C03:{}:{}", c.target.name(), normalise(&e)), e))
}

fn normalise(s: &str) -> String {
    let mut out = String::new();
    let mut in_num = false;
    for ch in s.chars() {
        if ch.is_ascii_digit() {
            if !in_num {
                out.push('N');
            }
            in_num = true;
        } else {
            in_num = false;
            out.push(ch);
        }
    }
    out.truncate(80);
    out
}

/// Entry for the isolated child: exit 0 pass, 1 fail (key on stdout), killed by signal otherwise.
pub fn isolated_main(path: &std::path::Path) -> i32 {
    let Ok(text) = std::fs::read_to_string(path) else { return 3 };
    let Ok(c) = serde_json::from_str::<Case>(&text) else { return 3 };
    // run on a thread with the platform's default main-thread-like stack (8 MiB)
    let h = std::thread::Builder::new()
        .stack_size(8 * 1024 * 1024)
        .spawn(move || match run_case_inproc(&c) {
            Ok(_) => 0,
            Err(f) => {
                println!("KEY {}", f.key);
                println!("DETAIL {}", f.detail);
                1
            }
        })
        .unwrap();
    h.join().unwrap_or(4)
}

fn run_isolated(c: &Case) -> Result<&'static str, Fail> {
    let dir = root().join("out").join("isolated");
    let _ = std::fs::create_dir_all(&dir);
    static SEQ: std::sync::atomic::AtomicU64 = std::sync::atomic::AtomicU64::new(0);
    let path = dir.join(format!(
        "c03-{}-{}-{:016x}.json",
        std::process::id(),
        SEQ.fetch_add(1, std::sync::atomic::Ordering::SeqCst),
        fingerprint(c)
    ));
    let _ = std::fs::write(&path, serde_json::to_string(c).unwrap());
    let exe = std::env::current_exe().unwrap();
    let out = std::process::Command::new(exe).arg("isolated").arg("C03").arg(&path).output();
    let _ = std::fs::remove_file(&path);
    match out {
        Ok(o) => {
            use std::os::unix::process::ExitStatusExt;
            if let Some(sig) = o.status.signal() {
                return Err(Fail::new(
                    format!("C03:{}:killed-by-signal-{}", c.target.name(), sig),
                    format!(
                        "child process died with signal {} (stack overflow / abort) on an input of {} bytes with nesting depth {}",
                        sig,
                        c.input.to_vec().len(),
                        max_depth(&c.input.to_vec())
                    ),
                ));
            }
            match o.status.code() {
                Some(0) => Ok("isolated-ok"),
                Some(1) => {
                    let so = String::from_utf8_lossy(&o.stdout);
                    let key = so.lines().find_map(|l| l.strip_prefix("KEY ")).unwrap_or("C03:isolated-failure").to_string();
                    let detail = so.lines().find_map(|l| l.strip_prefix("DETAIL ")).unwrap_or("").to_string();
                    Err(Fail::new(key, detail))
                }
                other => Err(Fail::new(
                    format!("C03:{}:isolated-exit-{:?}", c.target.name(), other),
                    String::from_utf8_lossy(&o.stderr).to_string(),
                )),
            }
        }
        Err(e) => Err(Fail::new("C03:cannot-spawn-isolated", e.to_string())),
    }
}

// ------------------------------------------------------------------------------------------
// Generators: valid base texts and systematic mutators

#[derive(Clone, Debug)]
enum Mutation {
    None,
    Prefix(u16),
    Subst(u16, u8),
    Delete(u16),
    Dup(u16),
    Insert(u16, Vec<u8>),
    Splice(u16, u16),
    Truncate2(u16, u16),
    /// put a UTF-8 lead byte (without its continuation bytes) right before the n-th double quote
    LeadBeforeQuote(u16, u8),
    /// arbitrary bytes inserted in front of the n-th double quote
    BeforeQuote(u16, Vec<u8>),
    /// swap two bytes
    Swap(u16, u16),
}

const SUBST_BYTES: [u8; 20] = [
    0x00, b'"', b'\\', b'[', b']', b'{', b'}', b',', b':', 0x7F, 0x80, 0xBF, 0xC0, 0xE0, 0xF0, 0xF8, 0xFF, b'0', b' ', b'u',
];

fn mutation() -> BoxedStrategy<Mutation> {
    prop_oneof![
        1 => Just(Mutation::None),
        4 => any::<u16>().prop_map(Mutation::Prefix),
        6 => (any::<u16>(), prop::sample::select(SUBST_BYTES.to_vec())).prop_map(|(p, b)| Mutation::Subst(p, b)),
        1 => (any::<u16>(), any::<u8>()).prop_map(|(p, b)| Mutation::Subst(p, b)),
        2 => any::<u16>().prop_map(Mutation::Delete),
        2 => any::<u16>().prop_map(Mutation::Dup),
        2 => (any::<u16>(), prop_oneof![
                "[0-9]{1,40}".prop_map(|s| s.into_bytes()),
                prop::sample::select(vec![
                    "\\u".as_bytes().to_vec(), "\\ud800".as_bytes().to_vec(), "\\".as_bytes().to_vec(), "\"".as_bytes().to_vec(),
                    vec![0xC3], vec![0xE2, 0x82], vec![0xF0, 0x9F, 0x98], vec![0xFF, 0xFE], ",,".as_bytes().to_vec(),
                    "[[".as_bytes().to_vec(), "]]".as_bytes().to_vec(), "{}".as_bytes().to_vec(), ":".as_bytes().to_vec(),
                    ",\"#e\":[]".as_bytes().to_vec(), "\\u00e9".as_bytes().to_vec(), "\\uFFFF".as_bytes().to_vec(),
                ]),
            ]).prop_map(|(p, v)| Mutation::Insert(p, v)),
        1 => (any::<u16>(), any::<u16>()).prop_map(|(a, b)| Mutation::Splice(a, b)),
        1 => (any::<u16>(), any::<u16>()).prop_map(|(a, b)| Mutation::Truncate2(a, b)),
        3 => (any::<u16>(), prop::sample::select(vec![0xC3u8, 0xE2, 0xF0, 0xDF, 0xEF, 0xF4, 0xFF])).prop_map(|(a, b)| Mutation::LeadBeforeQuote(a, b)),
        1 => (any::<u16>(), any::<u16>()).prop_map(|(a, b)| Mutation::Swap(a, b)),
        // a backslash followed by a multi-byte, over-long or stray sequence, in front of a quote or anywhere
        2 => (any::<u16>(), any::<bool>(), prop::sample::select(vec![
                vec![0xC0u8, 0xAF], vec![0xC0, 0xA2], vec![0xC1, 0x9C], vec![0xE0, 0x80, 0xAF], vec![0x80, 0x2F], vec![0xC3, 0xA9],
                vec![0xF0, 0x9F, 0x98, 0x80], vec![0xE2, 0x80, 0xA8], vec![0xED, 0xA0, 0x80], vec![0xF4, 0x90, 0x80, 0x80], vec![0xC3], vec![0xFF],
            ])).prop_map(|(a, before_quote, mut bytes)| {
                bytes.insert(0, b'\\');
                if before_quote { Mutation::BeforeQuote(a, bytes) } else { Mutation::Insert(a, bytes) }
            }),
    ]
    .boxed()
}

fn idx(p: u16, len: usize) -> usize {
    if len == 0 {
        0
    } else {
        ((p as usize) * len) >> 16
    }
}

fn apply(base: &[u8], other: &[u8], m: &Mutation) -> Vec<u8> {
    let mut v = base.to_vec();
    match m {
        Mutation::None => {}
        Mutation::Prefix(p) => v.truncate(idx(*p, v.len() + 1)),
        Mutation::Subst(p, b) => {
            if !v.is_empty() {
                let i = idx(*p, v.len());
                v[i] = *b;
            }
        }
        Mutation::Delete(p) => {
            if !v.is_empty() {
                let _ = v.remove(idx(*p, v.len()));
            }
        }
        Mutation::Dup(p) => {
            if !v.is_empty() {
                let i = idx(*p, v.len());
                let b = v[i];
                v.insert(i, b);
            }
        }
        Mutation::Insert(p, bytes) => {
            let i = idx(*p, v.len() + 1);
            let tail = v.split_off(i);
            v.extend_from_slice(bytes);
            v.extend(tail);
        }
        Mutation::Splice(a, b) => {
            let i = idx(*a, v.len() + 1);
            let j = idx(*b, other.len() + 1);
            v.truncate(i);
            v.extend_from_slice(&other[j..]);
        }
        Mutation::LeadBeforeQuote(a, b) => {
            let quotes: Vec<usize> = v.iter().enumerate().filter(|(_, c)| **c == b'"').map(|(i, _)| i).collect();
            if !quotes.is_empty() {
                let q = quotes[idx(*a, quotes.len())];
                v.insert(q, *b);
            }
        }
        Mutation::BeforeQuote(a, bytes) => {
            let quotes: Vec<usize> = v.iter().enumerate().filter(|(_, c)| **c == b'"').map(|(i, _)| i).collect();
            if !quotes.is_empty() {
                let q = quotes[idx(*a, quotes.len())];
                let tail = v.split_off(q);
                v.extend_from_slice(bytes);
                v.extend(tail);
            }
        }
        Mutation::Swap(a, b) => {
            if !v.is_empty() {
                let i = idx(*a, v.len());
                let j = idx(*b, v.len());
                v.swap(i, j);
            }
        }
        Mutation::Truncate2(a, b) => {
            let i = idx(*a, v.len() + 1);
            let j = idx(*b, v.len() + 1);
            let (lo, hi) = (i.min(j), i.max(j));
            let _ = v.drain(lo..hi);
        }
    }
    v
}

fn deep_text(target: Target, depth: u32, kind: u8) -> Vec<u8> {
    let d = depth as usize;
    let open: Vec<u8> = match kind % 4 {
        0 => "[".repeat(d).into_bytes(),
        1 => "{\"a\":".repeat(d).into_bytes(),
        2 => "[{\"a\":".repeat(d / 2 + 1).into_bytes(),
        _ => "[".repeat(d).into_bytes(),
    };
    let close: Vec<u8> = match kind % 4 {
        0 => "]".repeat(d).into_bytes(),
        1 => "}".repeat(d).into_bytes(),
        2 => "}]".repeat(d / 2 + 1).into_bytes(),
        _ => Vec::new(), // unterminated
    };
    let mut mid = open;
    if kind % 4 == 1 || kind % 4 == 2 {
        mid.extend_from_slice(b"1");
    }
    mid.extend(close);
    match target {
        Target::Filter => {
            let mut t = b"{\"#e\":".to_vec();
            if kind & 4 != 0 {
                t = b"{\"x\":".to_vec();
            }
            t.extend(mid);
            t.extend_from_slice(b"}");
            t
        }
        Target::Tags => mid,
        _ => {
            let ev = crate::props::c01::fixed_event();
            let mut plan = Plan::default();
            plan.unknown = vec![Unknown {
                pos: kind,
                name: "x".into(),
                value: String::from_utf8(mid).unwrap(),
            }];
            render_event(&ev, &plan).into_bytes()
        }
    }
}

fn base_text(target: Target, tier: Tier) -> BoxedStrategy<Vec<u8>> {
    let maxlen = tier.pick(12, 60);
    match target {
        Target::Event => (mevent_strategy(4, maxlen), plan_strategy(7, 2, 3))
            .prop_map(|(e, p)| render_event(&e, &p).into_bytes())
            .boxed(),
        Target::Filter => prop_oneof![
            5 => (crate::props::c07::mfilter_strategy(maxlen), plan_strategy(12, 2, 3))
                .prop_map(|(f, p)| render_filter(&f, &p).into_bytes()),
            // NIP-45 count filter shape (exercises hyperloglog_offset on accepted filters)
            1 => (prop::sample::select(vec![3u16, 7]), hex32(), any::<u8>(), prop::sample::select(vec![0x80u8, 0xC3, 0xDF, 0xE2, 0xFF, b'g', b'0']))
                .prop_map(|(k, v, pos, b)| {
                    let mut val = v.into_bytes();
                    let i = (pos as usize) % 80;
                    if i < val.len() {
                        val[i] = b;
                    }
                    let mut t = format!("{{\"kinds\":[{}],\"#{}\":[\"", k, if k == 3 { 'p' } else { 'e' }).into_bytes();
                    t.extend(val);
                    t.extend_from_slice(b"\"]}");
                    t
                }),
        ]
        .boxed(),
        Target::Tags => prop_oneof![
            3 => (prop::collection::vec(tag_strategy(4, maxlen), 0..6), plan_strategy(1, 0, 1))
                .prop_map(|(t, p)| render_tags(&t, &p.cur()).into_bytes()),
            // strings that look like JSON structure, with a dangling UTF-8 lead byte before one closing quote
            // (the byte-wise pre-scan and the code-point-wise copy then disagree on where strings end)
            2 => (
                prop::collection::vec(
                    prop::collection::vec(prop::sample::select(vec!["],[", "]", "[", ",", "a", "", "],", ",[", "\\\"", "]]"]), 1..4),
                    1..4
                ),
                any::<u16>(),
                prop::sample::select(vec![0xC3u8, 0xE2, 0xF0]),
                any::<bool>(),
            )
                .prop_map(|(t, sel, lead, raw)| {
                    let tags: Vec<Vec<String>> = t.iter().map(|x| x.iter().map(|s| s.to_string()).collect()).collect();
                    let mut v = if raw {
                        // unescaped rendering: structural characters appear literally inside the strings
                        let mut s = String::from("[");
                        for (i, tag) in tags.iter().enumerate() {
                            if i > 0 {
                                s.push(',');
                            }
                            s.push('[');
                            for (j, x) in tag.iter().enumerate() {
                                if j > 0 {
                                    s.push_str(", ");
                                }
                                s.push('"');
                                s.push_str(x);
                                s.push('"');
                            }
                            s.push(']');
                        }
                        s.push(']');
                        s.into_bytes()
                    } else {
                        render_tags(&tags, &Plan::default().cur()).into_bytes()
                    };
                    let quotes: Vec<usize> = v.iter().enumerate().filter(|(_, c)| **c == b'"').map(|(i, _)| i).collect();
                    if !quotes.is_empty() {
                        let q = quotes[idx(sel, quotes.len())];
                        v.insert(q, lead);
                    }
                    v
                }),
        ]
        .boxed(),
        Target::Unescape => (rich_string(maxlen), choices(16), prop::sample::select(vec!["\"", "\",\"x\"]", "", "\"}"]))
            .prop_map(|(s, c, tail)| {
                let r = render_string(&s, &c.cur());
                let mut v = r.as_bytes()[1..r.len() - 1].to_vec();
                v.extend_from_slice(tail.as_bytes());
                v
            })
            .boxed(),
        Target::HexId | Target::HexPubkey => hex32().prop_map(|s| s.into_bytes()).boxed(),
        Target::HexSig => hex64().prop_map(|s| s.into_bytes()).boxed(),
        Target::Hll => prop::collection::vec(any::<u8>(), 256).prop_map(|v| hex(&v).into_bytes()).boxed(),
        Target::Addr => (any_kind(), hex32(), rich_string(maxlen), prop::sample::select(vec![":", ":", ":", "", "::"]))
            .prop_map(|(k, a, d, sep)| format!("{}{}{}{}{}", k, sep, a, sep, d).into_bytes())
            .boxed(),
    }
}

fn target_strategy() -> BoxedStrategy<Target> {
    prop_oneof![
        8 => Just(Target::Event),
        8 => Just(Target::Filter),
        4 => Just(Target::Tags),
        4 => Just(Target::Unescape),
        1 => Just(Target::HexId),
        1 => Just(Target::HexPubkey),
        1 => Just(Target::HexSig),
        1 => Just(Target::Hll),
        2 => Just(Target::Addr),
    ]
    .boxed()
}

fn needed_guess(target: Target, input: &[u8]) -> usize {
    match target {
        Target::Event => event_view(input)
            .and_then(|v| match (&v.tags, &v.content) {
                (Some(t), Some(c)) => Some(144 + tags_size(t) + 4 + c.len()),
                _ => None,
            })
            .unwrap_or(input.len()),
        _ => input.len() / 2 + 32,
    }
}

impl Prop for C03 {
    type Case = Case;
    fn id(&self) -> &'static str {
        "C03"
    }
    fn rule(&self) -> String {
        "Cases: for each parsing entry point (event/filter/tags from JSON, json_unescape, hex decoding of id/pubkey/sig/HLL registers, address parsing) a generated valid text is mutated systematically (any prefix; single-byte substitution from a table of structural and >=0x80 bytes; deletion; duplication; insertion of digit runs 1..40, partial escapes, partial UTF-8 sequences; splice of two texts; excision) and parsed into an output buffer whose length is drawn from 0..=600, the exact need +-8, 4096 or 70000, with arbitrary fill; deep nesting 1..1e6 runs in an isolated child process with an 8 MiB stack. Enumerated first: every prefix of the suite's sample event and filter, every output length 0..=400 for the sample event, every byte value at 40 positions, 1..60 '#x' filter members. Oracle: no panic/abort/signal, consumed <= input length, canary bytes after the output window intact, and on success the whole accessor/iterator/serializer panel completes. Non-trivial: a mutated (not pristine) input that passes the parser's first length gate (event >= 204 bytes, others >= 2 bytes); distinct by case fingerprint.".into()
    }
    fn assumptions(&self) -> Vec<String> {
        vec![
            "Out-of-bounds reads that do not panic are only visible to the ASan-instrumented libFuzzer targets of the thorough tier; the proptest tier sees panics (bounds checks), canary damage and wrong lengths.".into(),
            "Non-termination is detected by a watchdog and reported as inconclusive (exit 2).".into(),
            "Deep nesting is checked with an 8 MiB stack (the Linux main-thread default).".into(),
        ]
    }
    fn cases(&self, tier: Tier) -> u32 {
        tier.pick(200_000, 2_000_000)
    }
    fn enumerated_subspaces(&self, _tier: Tier) -> Vec<String> {
        vec![
            "every prefix of the fixed sample event text and of a sample filter text".into(),
            "every output buffer length 0..=400 for the fixed sample event and 0..=300 for the sample filter".into(),
            "every byte value 0..=255 substituted at 40 evenly spaced positions of the sample event".into(),
            "filters with 1..=60 distinct-or-repeated '#x' members".into(),
            "NIP-45 count filters {kinds:[3|7], #p|#e:[64 bytes]}: 19 byte values at each of the 64 value positions".into(),
            "nesting depths 10, 100, 1000, 10^4, 10^5, 10^6 x 3 shapes x {event unknown member, filter #e value, filter unknown member, tags}".into(),
        ]
    }
    fn enumerate(&self, _tier: Tier) -> Vec<Case> {
        let mut v = Vec::new();
        let ev = render_event(&crate::props::c01::fixed_event(), &Plan::default()).into_bytes();
        let ft = br##"{"ids":["6b43bc2e373b6d9330ff571f3f4e6d897b32d01d65227df3fa41cdf731c63c3a"],"authors":["52b4a076bcbbbdc3a1aefa3735816cf74993b1b8db202b01c883c58be7fad8bd"],"kinds":[1,30023],"#e":["a\"b","c"],"#p":[],"since":5,"until":10,"limit":3,"search":"x"}"##.to_vec();
        for n in 0..=ev.len() {
            v.push(Case { target: Target::Event, input: Bytes::from_vec(ev[..n].to_vec()), outlen: 4096, fill: 0, pristine: n == ev.len() });
        }
        for n in 0..=ft.len() {
            v.push(Case { target: Target::Filter, input: Bytes::from_vec(ft[..n].to_vec()), outlen: 4096, fill: 0, pristine: n == ft.len() });
        }
        for l in 0..=400u32 {
            v.push(Case { target: Target::Event, input: Bytes::from_vec(ev.clone()), outlen: l, fill: 0xEE, pristine: false });
        }
        for l in 0..=300u32 {
            v.push(Case { target: Target::Filter, input: Bytes::from_vec(ft.clone()), outlen: l, fill: 0xEE, pristine: false });
        }
        for k in 0..40 {
            let pos = k * ev.len() / 40;
            for b in 0..=255u8 {
                let mut t = ev.clone();
                t[pos] = b;
                v.push(Case { target: Target::Event, input: Bytes::from_vec(t), outlen: 4096, fill: 0, pristine: false });
            }
        }
        for n in 1..=60usize {
            for rep in [false, true] {
                let mut t = String::from("{");
                for i in 0..n {
                    if i > 0 {
                        t.push(',');
                    }
                    let letter = if rep { b'a' + (i % 3) as u8 } else if i < 26 { b'a' + i as u8 } else if i < 52 { b'A' + (i - 26) as u8 } else { b'a' + (i - 52) as u8 };
                    t.push_str(&format!("\"#{}\":[\"v{}\"]", letter as char, i));
                }
                t.push('}');
                v.push(Case { target: Target::Filter, input: Bytes::from_vec(t.into_bytes()), outlen: 8192, fill: 0, pristine: false });
            }
        }
        // NIP-45 count filters: every byte value at every position of the 64-byte tag value
        for (k, l) in [(3u16, 'p'), (7u16, 'e')] {
            let base = format!("{{\"kinds\":[{k}],\"#{l}\":[\"{}\"]}}", "ab".repeat(32)).into_bytes();
            let start = base.iter().position(|c| *c == b'[').map(|_| base.len() - 64 - 3).unwrap_or(0);
            for pos in 0..64 {
                for b in [0x00u8, b'"', b'\\', 0x7f, 0x80, 0x9f, 0xa0, 0xbf, 0xc2, 0xc3, 0xdf, 0xe0, 0xef, 0xf0, 0xf4, 0xff, b'g', b'G', b' '] {
                    let mut t = base.clone();
                    t[start + pos] = b;
                    v.push(Case { target: Target::Filter, input: Bytes::from_vec(t), outlen: 4096, fill: 0, pristine: false });
                }
            }
        }
        for depth in [10u32, 100, 1000, 10_000, 100_000, 1_000_000] {
            for kind in 0..8u8 {
                for target in [Target::Event, Target::Filter, Target::Tags] {
                    let t = deep_text(target, depth, kind);
                    v.push(Case { target, input: Bytes::from_vec(t), outlen: 70_000, fill: 0, pristine: false });
                }
            }
        }
        v
    }
    fn strategy(&self, tier: Tier) -> BoxedStrategy<Case> {
        target_strategy()
            .prop_flat_map(move |target| {
                (
                    Just(target),
                    base_text(target, tier),
                    base_text(target, tier),
                    prop::collection::vec(mutation(), 1..3),
                    prop_oneof![
                        3 => (0u32..=600).prop_map(|x| (0u8, x)),
                        3 => (0u32..=16).prop_map(|x| (1u8, x)),
                        2 => Just((2u8, 4096u32)),
                        2 => Just((2u8, 70_000u32)),
                    ],
                    prop_oneof![Just(0u8), Just(0xffu8), any::<u8>()],
                )
            })
            .prop_map(|(target, base, other, muts, (mode, x), fill)| {
                let mut input = base.clone();
                for m in &muts {
                    input = apply(&input, &other, m);
                }
                let pristine = input == base;
                let outlen = match mode {
                    0 => x,
                    1 => (needed_guess(target, &input) as i64 + x as i64 - 8).max(0) as u32,
                    _ => x,
                };
                Case {
                    target,
                    input: Bytes::from_vec(input),
                    outlen,
                    fill,
                    pristine,
                }
            })
            .boxed()
    }
    fn label_floors(&self) -> Vec<(&'static str, f64)> {
        vec![("result:ok", 0.03), ("result:err", 0.3)]
    }
    fn check(&self, c: &Case) -> Outcome {
        let mut out = Outcome::default();
        let input = c.input.to_vec();
        out.label(format!("target:{}", c.target.name()));
        let gate = match c.target {
            Target::Event => 204,
            _ => 2,
        };
        out.nontrivial = !c.pristine && input.len() >= gate;
        let depth = max_depth(&input);
        let isolate_all = std::env::var("PV_ISOLATE_ALL").is_ok();
        let r = if (depth > 2000 || isolate_all) && std::env::var("PV_NO_ISOLATE").is_err() {
            out.label("isolated-child");
            run_isolated(c)
        } else {
            run_case_inproc(c)
        };
        match r {
            Ok(v) => out.label(format!("result:{v}")),
            Err(f) => {
                let key = if f.key.starts_with("C03:") { f.key } else { format!("C03:{}", f.key) };
                out.fail(key, f.detail)
            }
        }
        out
    }
}

/// Generated valid (and mutated) texts for a fuzz corpus: `n` inputs for the entry point, each with the
/// two-byte header the fuzz targets expect.
pub fn corpus_texts(target: Target, n: usize, seed: u64) -> Vec<Vec<u8>> {
    use proptest::strategy::ValueTree;
    use proptest::test_runner::{Config, RngAlgorithm, TestRng, TestRunner};
    let mut bytes = [0u8; 32];
    bytes[..8].copy_from_slice(&seed.to_le_bytes());
    let mut runner = TestRunner::new_with_rng(Config::default(), TestRng::from_seed(RngAlgorithm::ChaCha, &bytes));
    let strat = base_text(target, Tier::Quick);
    let mut out = Vec::new();
    for i in 0..n {
        if let Ok(t) = strat.new_tree(&mut runner) {
            let mut v = vec![(i % 12) as u8 + 10, 0u8];
            v.extend(t.current());
            out.push(v);
        }
    }
    out
}
