//! C04 Stored events read back byte-identical, forever.

use crate::dbx::*;
use crate::engine::*;
use crate::model::*;
use proptest::prelude::*;
use serde::{Deserialize, Serialize};
use std::collections::BTreeSet;

#[derive(Clone, Debug, Serialize, Deserialize)]
pub struct Case {
    pub ops: Vec<Op>,
    /// free-running phase at the end: this many threads store `per_thread` events each at the same time
    /// (thread 0 stores ephemeral kinds), then every offset is read back
    #[serde(default)]
    pub stress_threads: u8,
    #[serde(default)]
    pub per_thread: u8,
    /// the store directory is on the block file system under the verification root instead of tmpfs
    #[serde(default)]
    pub disk: bool,
}

pub struct C04;

impl Prop for C04 {
    type Case = Case;
    fn id(&self) -> &'static str {
        "C04"
    }
    fn rule(&self) -> String {
        "Cases: histories of 0..40 (thorough: 0..150) operations - store (content sizes 0..11, ~200, ~1900, 2040..2055, 5000 bytes so that the 2048-byte debug chunk / 4 MiB release chunk is crossed), resubmit, new version at an address, remove, deletion requests, vanish, reopen - over 4 authors, 17 kinds and a 21-value timestamp pool. Oracle: a map offset -> submitted bytes of every successful store; after every step every recorded offset must read back byte-identical, offsets must be pairwise distinct, and events of regular kinds that no removal/deletion/vanish has named must be returned byte-identical by id. Non-trivial: an offset recorded before a file growth or a reopen is re-read after it.".into()
    }
    fn assumptions(&self) -> Vec<String> {
        vec!["Runs with debug assertions on (event map grows in 2048-byte chunks) in the quick tier; the thorough tier adds the release profile (4 MiB chunks).".into()]
    }
    fn cases(&self, tier: Tier) -> u32 {
        tier.pick(4000, 60000)
    }
    fn strategy(&self, tier: Tier) -> BoxedStrategy<Case> {
        let w = OpWeights {
            store: 12,
            resubmit: 2,
            version: 3,
            remove: 2,
            delete_req: 1,
            delete_own: 3,
            vanish: 1,
            reopen: 2,
            rebuild: 1,
            extra: 0,
            pressure: 0,
            mass_delete: 0,
            big: 3,
        };
        (history(w, EvCfg::default(), tier.pick(40, 150)), prop_oneof![3 => Just(0u8), 1 => 2u8..5], 8u8..40, prop::bool::weighted(0.2))
            .prop_map(|(ops, stress_threads, per_thread, disk)| Case { ops, stress_threads, per_thread, disk })
            .boxed()
    }
    fn label_floors(&self) -> Vec<(&'static str, f64)> {
        vec![("grew", 0.3), ("reopened", 0.2)]
    }
    fn release_fraction(&self, tier: Tier) -> f64 {
        tier.pick(0.3, 0.1)
    }
    fn max_shrink_iters(&self) -> u32 {
        400
    }
    fn check(&self, c: &Case) -> Outcome {
        let mut out = Outcome::default();
        out.label(if c.disk { "on-block-filesystem" } else { "on-tmpfs" });
        let mut w = match World::new_on(0, c.disk) {
            Ok(w) => w,
            Err(f) => {
                out.fail(format!("C04:{}", f.key), f.detail);
                return out;
            }
        };
        // events that some removal / deletion / vanish may legitimately have made unretrievable
        let mut touched: BTreeSet<String> = BTreeSet::new();
        let mut touched_addrs: BTreeSet<(u16, String, String)> = BTreeSet::new();
        let mut stored_ok: BTreeSet<usize> = BTreeSet::new();
        let mut reread_after_growth = false;
        for (stepno, op) in c.ops.iter().enumerate() {
            let Some(conc) = w.concretise(op) else { continue };
            let offsets_before = w.offsets.len();
            let growths_before = w.growths;
            let reopens_before = w.reopens;
            let step = w.apply(&conc);
            if let Res::Panic(k) = &step.res {
                out.fail(format!("C04:{k}"), format!("step {stepno} {:?}", op));
                return out;
            }
            match (&step.kind, &step.res) {
                (StepKind::Store(i), res) => {
                    let e = &w.events[*i];
                    if e.kind == 5 {
                        for t in &e.tags {
                            if t.len() >= 2 && t[0] == "e" {
                                let _ = touched.insert(t[1].to_lowercase());
                            }
                            // a deletion by address may remove every event at that address
                            if t.len() >= 2 && t[0] == "a" {
                                if let Some(mut a) = crate::model::parse_addr(&t[1]) {
                                    if crate::model::kind_is_replaceable(a.0) {
                                        // for non-parameterised kinds the d part is not part of the address
                                        a.2 = String::new();
                                    }
                                    for x in &w.events {
                                        if World::address_of(x).as_ref() == Some(&a) {
                                            let _ = touched.insert(x.id.clone());
                                        }
                                    }
                                    let _ = touched_addrs.insert(a);
                                }
                            }
                        }
                    }
                    // a store at a replaceable address may displace (or be refused in favour of) the events at that address
                    if let Some(a) = World::address_of(e) {
                        for (j, x) in w.events.iter().enumerate() {
                            if j != *i && World::address_of(x).as_ref() == Some(&a) {
                                let _ = touched.insert(x.id.clone());
                            }
                        }
                        if touched_addrs.contains(&a) {
                            let _ = touched.insert(e.id.clone());
                        }
                    }
                    if res.is_ok() {
                        let _ = stored_ok.insert(*i);
                        // a non-ephemeral event is retrievable by id as soon as its store has returned
                        if !crate::model::kind_is_ephemeral(e.kind) {
                            match w.get_by_id(&e.id) {
                                Ok(Some(b)) if b == w.owned[*i].as_bytes() => {}
                                Ok(Some(_)) => {
                                    out.fail("C04:by-id-readback-differs", format!("step {stepno}: {} read by id right after its store differs from what was stored", e.short()));
                                    return out;
                                }
                                Ok(None) => {
                                    out.fail("C04:stored-event-not-found-by-id", format!("step {stepno}: {} was stored successfully but is not found by id", e.short()));
                                    return out;
                                }
                                Err(x) => {
                                    out.fail(format!("C04:by-id-error:{x}"), format!("step {stepno}"));
                                    return out;
                                }
                            }
                        }
                    }
                }
                (StepKind::Remove(id), _) => {
                    let _ = touched.insert(id.clone());
                }
                (StepKind::Vanish(a), _) => {
                    for e in &w.events {
                        if e.pubkey == *a || e.kind == 1059 {
                            let _ = touched.insert(e.id.clone());
                        }
                    }
                }
                (StepKind::Reopen, res) => {
                    if !res.is_ok() {
                        out.fail("C04:reopen-failed", format!("step {stepno}: {:?}", res));
                        return out;
                    }
                }
                _ => {}
            }
            if let Some(off) = w.offset_reused {
                out.fail("C04:offset-reused", format!("step {stepno}: offset {off} was returned by two successful stores into the same file"));
                return out;
            }
            if (w.growths > growths_before || w.reopens > reopens_before) && offsets_before > 0 {
                reread_after_growth = true;
            }
            // every offset ever returned reads back byte-identical
            for (off, i) in &w.offsets {
                match w.get_by_offset(*off) {
                    Ok(bytes) => {
                        if bytes != w.owned[*i].as_bytes() {
                            out.fail(
                                "C04:offset-readback-differs",
                                format!("step {stepno}: offset {off} no longer reads back the event stored there ({} vs {} bytes)", bytes.len(), w.owned[*i].len()),
                            );
                            return out;
                        }
                    }
                    Err(e) => {
                        out.fail(format!("C04:offset-read-error:{e}"), format!("step {stepno}: offset {off}"));
                        return out;
                    }
                }
            }
            // regular events that nothing has named are still there by id
            for i in &stored_ok {
                let e = &w.events[*i];
                // replaceable events count too, as long as nothing was stored at (or deleted for) their own address since
                if crate::model::kind_is_ephemeral(e.kind) || touched.contains(&e.id) {
                    continue;
                }
                match (w.get_by_id(&e.id), w.has(&e.id)) {
                    (Ok(Some(b)), Ok(true)) => {
                        if b != w.owned[*i].as_bytes() {
                            out.fail("C04:by-id-readback-differs", format!("step {stepno}: event {} read by id differs from what was stored", &e.id[..8]));
                            return out;
                        }
                    }
                    (Ok(None), _) | (_, Ok(false)) => {
                        out.fail("C04:stored-event-lost", format!("step {stepno}: {} was stored, never removed/deleted, but is not found by id", e.short()));
                        return out;
                    }
                    (Err(e), _) | (_, Err(e)) => {
                        out.fail(format!("C04:by-id-error:{e}"), format!("step {stepno}"));
                        return out;
                    }
                }
            }
        }
        // ---- concurrent stores (writers only): offsets distinct, everything reads back afterwards
        // the same event submitted again with another signature (schnorr signatures are randomised: two valid copies of
        // one event differ in their last 64 bytes): whatever the store answers, the id keeps leading to the bytes that
        // were stored first
        {
            let cands: Vec<usize> = w.offsets.values().copied().filter(|i| w.events[*i].kind == 1 && !touched.contains(&w.events[*i].id)).take(3).collect();
            for i in cands {
                let Ok(Some(before)) = w.get_by_id(&w.events[i].id) else { continue };
                let mut m = w.events[i].clone();
                m.sig = if m.sig.starts_with("5a") { "a5".repeat(64) } else { "5a".repeat(64) };
                let Ok(copy) = m.to_owned_event() else { continue };
                let st = w.st();
                let r = guard("Store::store_event", || st.store_event(&copy));
                if let Err(f) = r {
                    out.fail(format!("C04:{}", f.key), f.detail);
                    return out;
                }
                out.label("resubmitted-with-other-signature");
                match w.get_by_id(&w.events[i].id) {
                    Ok(Some(after)) if after == before => {}
                    Ok(other) => {
                        out.fail(
                            "C04:lookup-by-id-changed-by-resigned-copy",
                            format!("{} was stored and never removed; after a copy with the same id and another signature was submitted ({:?}), get_event_by_id returns {}", w.events[i].short(), r.map(|x| x.map_err(|e| e.to_string())), if other.is_some() { "other bytes" } else { "nothing" }),
                        );
                        return out;
                    }
                    Err(e) => {
                        out.fail(format!("C04:lookup-error:{e}"), "after a re-signed copy was submitted");
                        return out;
                    }
                }
            }
        }
        if c.stress_threads >= 2 {
            out.label("concurrent-stores");
            let mut batches: Vec<Vec<usize>> = Vec::new();
            // a stored regular event for the refused deletion requests of thread 1 to name
            let victim: Option<MEvent> = w.offsets.values().map(|i| w.events[*i].clone()).find(|e| e.kind == 1 && !touched.contains(&e.id));
            for t in 0..c.stress_threads {
                let mut b = Vec::new();
                for k in 0..c.per_thread {
                    if let (1, true, Some(v)) = (t, c.stress_threads >= 3, victim.as_ref()) {
                        // thread 1 (when there are three or more): deletion requests by somebody else, refused after
                        // their bytes were appended
                        let requester = (0u8..4).map(author).find(|a| *a != v.pubkey).unwrap();
                        let m = MEvent {
                            id: crate::model::hex(&crate::sha256::sha256(format!("stress-del-{}-{k}", w.events.len()).as_bytes())),
                            pubkey: requester,
                            sig: "00".repeat(64),
                            kind: 5,
                            created_at: 400 + k as u64,
                            tags: vec![vec!["e".to_string(), v.id.clone()]],
                            content: String::new(),
                        };
                        b.push(w.intern(m, None));
                        continue;
                    }
                    let ge = GenEvent {
                        author: t % 4,
                        kind: if t == 0 { 20000 + (k as u16 % 3) } else if k % 5 == 0 { 10002 } else { 1 },
                        created_at: 200 + k as u64,
                        tags: vec![vec!["t".to_string(), format!("stress-{t}-{k}")]],
                        content_len: 30 + ((k as u32 * 37 + t as u32 * 11) % 400),
                        idc: IdChoice::Hash,
                        many: 0,
                    };
                    b.push(w.intern(ge.to_model(), Some(&ge)));
                }
                batches.push(b);
            }
            let len_before = w.map_len();
            let results: Vec<Vec<(usize, Res)>> = {
                let st = w.st();
                let owned = &w.owned;
                let slot = current_slot();
                std::thread::scope(|scope| {
                    let hs: Vec<_> = batches
                        .iter()
                        .map(|b| {
                            scope.spawn(move || {
                                adopt_slot(slot);
                                b.iter()
                                    .map(|i| {
                                        let r = match guard("Store::store_event", || st.store_event(&owned[*i])) {
                                            Ok(Ok(off)) => Res::Ok(off),
                                            Ok(Err(e)) => classify_err(&e),
                                            Err(f) => Res::Panic(f.key),
                                        };
                                        (*i, r)
                                    })
                                    .collect::<Vec<_>>()
                            })
                        })
                        .collect();
                    hs.into_iter().map(|h| h.join().unwrap_or_default()).collect()
                })
            };
            if w.map_len() > len_before {
                out.label("grew-under-concurrency");
                out.nontrivial = true;
            }
            for (i, r) in results.into_iter().flatten() {
                match r {
                    Res::Ok(off) => {
                        if w.offsets.insert(off, i).is_some() {
                            out.fail("C04:offset-reused", format!("concurrent stores: offset {off} returned twice"));
                            return out;
                        }
                    }
                    Res::Panic(k) => {
                        out.fail(format!("C04:{k}"), "concurrent stores");
                        return out;
                    }
                    Res::Other(e) => {
                        out.fail(format!("C04:concurrent-store-error:{e}"), "concurrent stores");
                        return out;
                    }
                    _ => {}
                }
            }
            for (off, i) in &w.offsets {
                match w.get_by_offset(*off) {
                    Ok(bytes) if bytes == w.owned[*i].as_bytes() => {}
                    Ok(_) => {
                        out.fail("C04:offset-readback-differs", format!("after concurrent stores: offset {off} no longer reads back the event stored there"));
                        return out;
                    }
                    Err(e) => {
                        out.fail(format!("C04:offset-read-error:{e}"), format!("after concurrent stores: offset {off}"));
                        return out;
                    }
                }
            }
        }
        if w.grew {
            out.label("grew");
        }
        if w.reopens > 0 {
            out.label("reopened");
        }
        out.nontrivial = reread_after_growth;
        out
    }
}
