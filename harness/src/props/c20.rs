//! C20 HyperLogLog sketches merge like sets and estimate without failing.

use crate::engine::*;
use crate::model::*;
use pocket_types::Hll8;
use proptest::prelude::*;
use serde::{Deserialize, Serialize};

#[derive(Clone, Debug, Serialize, Deserialize)]
pub enum Case {
    /// elements (hex32) split into three sets by `assign`, inserted in the order given by `perm`
    Sets { elems: Vec<String>, assign: Vec<u8>, perm: Vec<u16>, offset: u8 },
    /// register state given as 512 hex characters
    Registers { hex: String },
    /// `n` pseudo-random elements derived from `seed` (accuracy clause)
    Accuracy { n: u32, seed: u64, offset: u8 },
    BadOffset { offset: u32 },
    /// offsets near usize::MAX (usize::MAX - back)
    HugeOffset { back: u8 },
    /// elements built to land in a given bucket with a given rho (leading zero bits after the bucket byte + 1);
    /// the expected register array is known exactly: per bucket the maximum rho
    Crafted { items: Vec<(u8, u8)>, perm: Vec<u16>, offset: u8, split: u8 },
}

pub struct C20;

fn regs(h: &Hll8) -> String {
    h.to_hex_string()
}

fn sketch(elems: &[[u8; 32]], offset: usize) -> Result<Hll8, String> {
    let mut h = Hll8::new();
    for e in elems {
        h.add_element(e, offset).map_err(|x| x.to_string())?;
    }
    Ok(h)
}

fn diff_regs(got: &str, exp: &str) -> String {
    let mut out = String::new();
    for i in 0..256 {
        let (g, e) = (&got[2 * i..2 * i + 2], &exp[2 * i..2 * i + 2]);
        if g != e {
            out.push_str(&format!("register {i}: {g} (expected {e}); "));
        }
    }
    out
}

fn merged(a: &Hll8, b: &Hll8) -> Hll8 {
    let mut x = *a;
    x += *b;
    x
}

/// The same merge with the left operand living at an address that is `k` bytes past an 8-byte boundary (a sketch
/// is a plain byte array and may sit anywhere inside a larger record).
fn merged_at_misalignment(a: &Hll8, b: &Hll8, k: usize) -> Hll8 {
    #[repr(C, align(8))]
    struct Slab {
        pad: [u8; 8],
        room: [Hll8; 2],
    }
    let mut slab = Box::new(Slab { pad: [0; 8], room: [Hll8::new(), Hll8::new()] });
    let base = slab.room.as_mut_ptr() as *mut u8;
    // SAFETY: Hll8 is a 256-byte array of u8 (alignment 1); base+k .. base+k+256 lies inside `room` (512 bytes)
    unsafe {
        let p = base.add(k % 8) as *mut Hll8;
        p.write(*a);
        *p += *b;
        p.read()
    }
}

/// splitmix64 -> deterministic uniform bytes (the seed comes from the proptest RNG)
fn prng_elems(seed: u64, n: usize) -> Vec<[u8; 32]> {
    let mut s = seed;
    let mut next = || {
        s = s.wrapping_add(0x9E3779B97F4A7C15);
        let mut z = s;
        z = (z ^ (z >> 30)).wrapping_mul(0xBF58476D1CE4E5B9);
        z = (z ^ (z >> 27)).wrapping_mul(0x94D049BB133111EB);
        z ^ (z >> 31)
    };
    (0..n)
        .map(|_| {
            let mut a = [0u8; 32];
            for k in 0..4 {
                a[8 * k..8 * k + 8].copy_from_slice(&next().to_le_bytes());
            }
            a
        })
        .collect()
}

impl Prop for C20 {
    type Case = Case;
    fn id(&self) -> &'static str {
        "C20"
    }
    fn rule(&self) -> String {
        "Cases: (a) multisets of up to 60 32-byte elements (uniform, plus elements with long zero runs after the index byte) split into three possibly overlapping sets, an insertion permutation and an offset 0..23: merge commutative/associative/idempotent, add idempotent and order-independent, sketch(A u B) == sketch(A)+sketch(B), hex export/import identity, estimate total; (b) arbitrary 256-byte register states imported from hex: export(import(x)) == x, estimate_count returns without panicking; (c) n in {100,300,1000,5000,20000} uniform elements: |estimate-n|/n < 0.40; (d) offsets >= 24 are refused. Enumerated first: every value 0..255 in each of 8 register positions on two backgrounds (2 x 8 x 256 states), the empty sketch, all offsets 0..=40. Non-trivial: two sketches with overlapping non-empty element sets, or a register >= 32, or an accuracy case.".into()
    }
    fn assumptions(&self) -> Vec<String> {
        vec!["Accuracy: standard error of a 256-register HLL is about 6.5%, so the 40% envelope is > 6 sigma; the elements come from a splitmix64 stream seeded by the (seeded) proptest RNG.".into()]
    }
    fn cases(&self, tier: Tier) -> u32 {
        tier.pick(150_000, 1_000_000)
    }
    fn enumerated_subspaces(&self, _tier: Tier) -> Vec<String> {
        vec![
            "register value 0..=255 at positions {0,1,17,100,127,128,254,255} on an all-zero and an all-5 background".into(),
            "all 256 level states (every register the same value) and 18 two-level states".into(),
            "offsets 0..=40".into(),
            "cardinalities {100,300,1000,5000,20000} x offsets {0,8,16,23}, plus 100,000 and 250,000 elements".into(),
            "offsets usize::MAX-39..=usize::MAX".into(),
            "all ordered pairs of rho values 1..=12 in one bucket (exact register model)".into(),
        ]
    }
    fn enumerate(&self, _tier: Tier) -> Vec<Case> {
        let mut v = Vec::new();
        for bg in [0u8, 5] {
            for pos in [0usize, 1, 17, 100, 127, 128, 254, 255] {
                for val in 0..=255u8 {
                    let mut r = vec![bg; 256];
                    r[pos] = val;
                    v.push(Case::Registers { hex: hex(&r) });
                }
            }
        }
        // "level" states: every register holds the same value; and two-level states (first k registers one higher)
        for val in 0..=255u8 {
            v.push(Case::Registers { hex: hex(&[val; 256]) });
        }
        for val in [1u8, 2, 7, 62, 63, 254] {
            for k in [1usize, 128, 255] {
                let mut r = vec![val; 256];
                for x in r.iter_mut().take(k) {
                    *x = val + 1;
                }
                v.push(Case::Registers { hex: hex(&r) });
            }
        }
        for o in 0..=40u32 {
            v.push(Case::BadOffset { offset: o });
        }
        for back in 0..40u8 {
            v.push(Case::HugeOffset { back });
        }
        // every pair (rho a first, rho b second) in one bucket, for rho 1..=12: the register must be max(a, b)
        for a in 1..=12u8 {
            for b in 1..=12u8 {
                v.push(Case::Crafted { items: vec![(7, a), (7, b)], perm: vec![0, 1], offset: (a + b) % 24, split: 1 });
            }
        }
        v.push(Case::Accuracy { n: 100_000, seed: 0xC20AA, offset: 3 });
        v.push(Case::Accuracy { n: 250_000, seed: 0xC20AB, offset: 11 });
        for n in [100u32, 300, 1000, 5000, 20000] {
            for offset in [0u8, 8, 16, 23] {
                v.push(Case::Accuracy { n, seed: 0xC20 + n as u64 * 31 + offset as u64, offset });
            }
        }
        v
    }
    fn strategy(&self, _tier: Tier) -> BoxedStrategy<Case> {
        let elem = prop_oneof![
            4 => any::<[u8; 32]>(),
            1 => (any::<[u8; 32]>(), 0usize..31, 1usize..31).prop_map(|(mut a, from, n)| {
                for i in from..(from + n).min(32) {
                    a[i] = 0;
                }
                a
            }),
            1 => Just([0u8; 32]),
            1 => Just([255u8; 32]),
        ]
        .prop_map(|a| hex(&a));
        prop_oneof![
            6 => (prop::collection::vec(elem, 0..60), prop::collection::vec(0u8..8, 60), prop::collection::vec(any::<u16>(), 60), 0u8..24)
                .prop_map(|(elems, assign, perm, offset)| Case::Sets { elems, assign, perm, offset }),
            3 => prop::collection::vec(prop_oneof![3 => 0u8..40, 1 => any::<u8>(), 1 => Just(64u8), 1 => Just(63u8)], 256).prop_map(|r| Case::Registers { hex: hex(&r) }),
            1 => (prop::sample::select(vec![100u32, 300, 1000, 5000]), any::<u64>(), 0u8..24).prop_map(|(n, seed, offset)| Case::Accuracy { n, seed, offset }),
            1 => (24u32..100_000).prop_map(|offset| Case::BadOffset { offset }),
            1 => (0u8..40).prop_map(|back| Case::HugeOffset { back }),
            4 => (
                prop::collection::vec((prop::sample::select(vec![0u8, 1, 7, 128, 254, 255]), prop_oneof![3 => 1u8..12, 1 => 1u8..64]), 1..14),
                prop::collection::vec(any::<u16>(), 14),
                0u8..24,
                any::<u8>(),
            )
                .prop_map(|(items, perm, offset, split)| Case::Crafted { items, perm, offset, split }),
        ]
        .boxed()
    }
    fn check(&self, c: &Case) -> Outcome {
        let mut out = Outcome::default();
        match c {
            Case::Sets { elems, assign, perm, offset } => {
                out.label("sets");
                let offset = *offset as usize;
                let els: Vec<[u8; 32]> = elems.iter().map(|s| arr32(s)).collect();
                // three sets by bitmask assign[i] & 1/2/4
                let set = |bit: u8| -> Vec<[u8; 32]> {
                    els.iter().enumerate().filter(|(i, _)| assign.get(*i).copied().unwrap_or(1) & bit != 0).map(|(_, e)| *e).collect()
                };
                let (a, b, cc) = (set(1), set(2), set(4));
                let overlap = els.iter().enumerate().any(|(i, _)| {
                    let m = assign.get(i).copied().unwrap_or(1) & 7;
                    m.count_ones() >= 2
                });
                out.nontrivial = overlap && !a.is_empty() && !b.is_empty();
                let r = guard("Hll8 laws", || -> Result<(), (String, String)> {
                    let e = |k: &str, d: String| Err((k.to_string(), d));
                    let ha = sketch(&a, offset).map_err(|x| ("add-failed".to_string(), x))?;
                    let hb = sketch(&b, offset).map_err(|x| ("add-failed".to_string(), x))?;
                    let hc = sketch(&cc, offset).map_err(|x| ("add-failed".to_string(), x))?;
                    if regs(&merged(&ha, &hb)) != regs(&merged(&hb, &ha)) {
                        return e("merge-not-commutative", String::new());
                    }
                    if regs(&merged(&merged(&ha, &hb), &hc)) != regs(&merged(&ha, &merged(&hb, &hc))) {
                        return e("merge-not-associative", String::new());
                    }
                    if regs(&merged(&ha, &ha)) != regs(&ha) {
                        return e("merge-not-idempotent", String::new());
                    }
                    // union
                    let mut u = a.clone();
                    u.extend(b.iter().cloned());
                    let hu = sketch(&u, offset).map_err(|x| ("add-failed".to_string(), x))?;
                    if regs(&hu) != regs(&merged(&ha, &hb)) {
                        return e("union-differs-from-merge", String::new());
                    }
                    // order independence + idempotence of add
                    let mut order: Vec<usize> = (0..u.len()).collect();
                    order.sort_by_key(|i| perm.get(*i).copied().unwrap_or(0));
                    let mut permuted: Vec<[u8; 32]> = order.iter().map(|i| u[*i]).collect();
                    if regs(&sketch(&permuted, offset).map_err(|x| ("add-failed".to_string(), x))?) != regs(&hu) {
                        return e("add-order-dependent", String::new());
                    }
                    permuted.extend(u.iter().cloned());
                    if regs(&sketch(&permuted, offset).map_err(|x| ("add-failed".to_string(), x))?) != regs(&hu) {
                        return e("add-not-idempotent", String::new());
                    }
                    // merging with the empty sketch is the identity
                    if regs(&merged(&hu, &Hll8::new())) != regs(&hu) {
                        return e("empty-not-identity", String::new());
                    }
                    // a left operand whose only non-zero registers are among the first / last few, at every placement;
                    // expected registers computed here (byte-wise maximum of the two hex dumps)
                    // (one case in six: 96 boxed merges are not free)
                    let sparse: &[usize] = if u.len() % 6 == 0 { &[0usize, 1, 3, 6, 7, 8, 247, 248, 249, 252, 254, 255] } else { &[] };
                    for (n, bucket) in sparse.iter().enumerate() {
                        let mut r = [0u8; 256];
                        r[*bucket] = 1 + (n as u8 % 5);
                        let left = Hll8::from_hex_string(&hex(&r)).map_err(|x| ("hex-import-failed".to_string(), x.to_string()))?;
                        let other = crate::model::unhex(&regs(&hb)).unwrap_or_default();
                        let want: Vec<u8> = r.iter().zip(other.iter()).map(|(x, y)| *x.max(y)).collect();
                        for k in 0..8 {
                            if regs(&merged_at_misalignment(&left, &hb, k)) != hex(&want) {
                                return e("merge-loses-registers", format!("left operand has only register {bucket} set and lies {k} bytes past an 8-byte boundary"));
                            }
                        }
                    }
                    // ... from either side, and wherever the sketches happen to lie in memory
                    for k in 0..8 {
                        if regs(&merged_at_misalignment(&Hll8::new(), &hu, k)) != regs(&hu) {
                            return e("merge-into-empty-differs", format!("left operand {k} bytes past an 8-byte boundary"));
                        }
                        if regs(&merged_at_misalignment(&ha, &hb, k)) != regs(&merged(&ha, &hb)) {
                            return e("merge-depends-on-address", format!("left operand {k} bytes past an 8-byte boundary"));
                        }
                    }
                    // hex round trip
                    let back = Hll8::from_hex_string(&regs(&hu)).map_err(|x| ("hex-import-failed".to_string(), x.to_string()))?;
                    if regs(&back) != regs(&hu) {
                        return e("hex-roundtrip", String::new());
                    }
                    // a cleared sketch is the empty sketch again, and behaves like a new one when reused
                    let mut recycled = back;
                    recycled.clear();
                    if regs(&recycled) != regs(&Hll8::new()) || recycled.estimate_count() != 0 {
                        return e("clear-leaves-state", diff_regs(&regs(&recycled), &regs(&Hll8::new())));
                    }
                    for x in a.iter() {
                        recycled.add_element(x, offset).map_err(|x| ("add-failed".to_string(), x.to_string()))?;
                    }
                    if regs(&recycled) != regs(&ha) {
                        return e("recycled-sketch-differs-from-new", String::new());
                    }
                    let est = hu.estimate_count();
                    if u.is_empty() && est != 0 {
                        return e("empty-estimate-nonzero", format!("{est}"));
                    }
                    // a sketch of k distinct elements never estimates wildly above (sanity, very loose)
                    if !u.is_empty() && est == 0 {
                        return e("nonempty-estimate-zero", format!("{} elements", u.len()));
                    }
                    Ok(())
                });
                match r {
                    Ok(Ok(())) => {}
                    Ok(Err((k, d))) => out.fail(format!("C20:{k}"), d),
                    Err(f) => out.fail(format!("C20:{}", f.key), f.detail),
                }
            }
            Case::Registers { hex: hx } => {
                out.label("registers");
                let bytes = unhex(hx).unwrap_or_default();
                out.nontrivial = bytes.iter().any(|b| *b >= 32);
                if bytes.iter().any(|b| *b >= 64) {
                    out.label("register>=64");
                }
                let r = guard("Hll8::estimate_count", || -> Result<(), (String, String)> {
                    let h = Hll8::from_hex_string(hx).map_err(|x| ("hex-import-failed".to_string(), x.to_string()))?;
                    if h.to_hex_string() != *hx {
                        return Err(("hex-roundtrip".into(), String::new()));
                    }
                    let up = Hll8::from_hex_string(&hx.to_uppercase());
                    if let Ok(u) = up {
                        if u.to_hex_string() != *hx {
                            return Err(("hex-roundtrip-uppercase".into(), String::new()));
                        }
                    }
                    let est = h.estimate_count();
                    if bytes.iter().all(|b| *b == 0) && est != 0 {
                        return Err(("empty-estimate-nonzero".into(), format!("{est}")));
                    }
                    // merging a state with itself / with empty
                    let mut m = h;
                    m += h;
                    if m.to_hex_string() != *hx {
                        return Err(("merge-not-idempotent".into(), String::new()));
                    }
                    let _ = m.estimate_count();
                    Ok(())
                });
                match r {
                    Ok(Ok(())) => {}
                    Ok(Err((k, d))) => out.fail(format!("C20:{k}"), d),
                    Err(f) => out.fail(format!("C20:{}", f.key), f.detail),
                }
            }
            Case::Accuracy { n, seed, offset } => {
                out.label("accuracy");
                out.nontrivial = true;
                let els = prng_elems(*seed, *n as usize);
                let r = guard("Hll8 accuracy", || sketch(&els, *offset as usize).map(|h| h.estimate_count()));
                match r {
                    Ok(Ok(est)) => {
                        let err = (est as f64 - *n as f64).abs() / *n as f64;
                        if err >= 0.40 {
                            out.fail("C20:estimate-outside-envelope", format!("n={n} estimate={est} relative error {err:.3}"));
                        }
                    }
                    Ok(Err(e)) => out.fail("C20:add-failed", e),
                    Err(f) => out.fail(format!("C20:{}", f.key), f.detail),
                }
            }
            Case::HugeOffset { back } => {
                out.label("offset");
                out.nontrivial = true;
                let off = usize::MAX - *back as usize;
                let r = guard("Hll8::add_element", || {
                    let mut h = Hll8::new();
                    let r = h.add_element(&[0xAB; 32], off);
                    (r.is_ok(), h.to_hex_string() == Hll8::new().to_hex_string())
                });
                match r {
                    Ok((ok, unchanged)) => {
                        if ok {
                            out.fail("C20:offset>=24-accepted", format!("offset usize::MAX-{back} accepted"));
                        } else if !unchanged {
                            out.fail("C20:refused-add-changed-sketch", format!("offset usize::MAX-{back}"));
                        }
                    }
                    Err(f) => out.fail(format!("C20:{}", f.key), f.detail),
                }
            }
            Case::Crafted { items, perm, offset, split } => {
                out.label("crafted");
                let offset = *offset as usize;
                // build an element with the given bucket byte and rho at this offset
                let make = |bucket: u8, rho: u8, salt: u8| -> ([u8; 32], u8) {
                    let mut e = [salt | 1; 32];
                    e[offset] = bucket;
                    let avail_bits = (8 * (31 - offset)) as u32;
                    let zeros = ((rho as u32).saturating_sub(1)).min(avail_bits);
                    // clear `zeros` leading bits after the bucket byte, then a one bit (if there is room)
                    let mut bit = 0u32;
                    for i in offset + 1..32 {
                        for b in (0..8).rev() {
                            if bit < zeros {
                                e[i] &= !(1 << b);
                            } else if bit == zeros {
                                e[i] |= 1 << b;
                            }
                            bit += 1;
                        }
                    }
                    (e, (zeros + 1) as u8)
                };
                let els: Vec<([u8; 32], u8, u8)> = items.iter().enumerate().map(|(i, (b, r))| { let (e, rho) = make(*b, *r, (i as u8).wrapping_mul(16)); (e, *b, rho) }).collect();
                let mut expect = [0u8; 256];
                for (_, b, rho) in &els {
                    expect[*b as usize] = expect[*b as usize].max(*rho);
                }
                let expect_hex = hex(&expect);
                let same_bucket = els.iter().enumerate().any(|(i, x)| els.iter().skip(i + 1).any(|y| x.1 == y.1 && x.2 != y.2));
                out.nontrivial = same_bucket;
                if same_bucket {
                    out.label("same-bucket-different-rho");
                }
                let mut order: Vec<usize> = (0..els.len()).collect();
                order.sort_by_key(|i| perm.get(*i).copied().unwrap_or(0));
                let r = guard("Hll8 crafted", || -> Result<(), (String, String)> {
                    // given order, permuted order, and split into two sketches that are merged
                    for (name, ord) in [("given-order", (0..els.len()).collect::<Vec<_>>()), ("permuted-order", order.clone())] {
                        let v: Vec<[u8; 32]> = ord.iter().map(|i| els[*i].0).collect();
                        let h = sketch(&v, offset).map_err(|x| ("add-failed".to_string(), x))?;
                        if regs(&h) != expect_hex {
                            return Err((format!("registers-differ-from-model:{name}"), format!("items (bucket, rho) {:?} at offset {offset}: registers {} expected {}", items, diff_regs(&regs(&h), &expect_hex), "max rho per bucket")));
                        }
                    }
                    let k = (*split as usize) % (els.len() + 1);
                    let a: Vec<[u8; 32]> = order[..k].iter().map(|i| els[*i].0).collect();
                    let b: Vec<[u8; 32]> = order[k..].iter().map(|i| els[*i].0).collect();
                    let m = merged(&sketch(&a, offset).map_err(|x| ("add-failed".to_string(), x))?, &sketch(&b, offset).map_err(|x| ("add-failed".to_string(), x))?);
                    if regs(&m) != expect_hex {
                        return Err(("registers-differ-from-model:merge".into(), format!("items {:?}: {}", items, diff_regs(&regs(&m), &expect_hex))));
                    }
                    Ok(())
                });
                match r {
                    Ok(Ok(())) => {}
                    Ok(Err((k, d))) => out.fail(format!("C20:{k}"), d),
                    Err(f) => out.fail(format!("C20:{}", f.key), f.detail),
                }
            }
            Case::BadOffset { offset } => {
                out.label("offset");
                let r = guard("Hll8::add_element", || {
                    let mut h = Hll8::new();
                    let r = h.add_element(&[0xAB; 32], *offset as usize);
                    (r.is_ok(), h.to_hex_string() == Hll8::new().to_hex_string())
                });
                match r {
                    Ok((ok, unchanged)) => {
                        if *offset >= 24 && ok {
                            out.fail("C20:offset>=24-accepted", format!("offset {offset} accepted"));
                        }
                        if *offset >= 24 && !unchanged {
                            out.fail("C20:refused-add-changed-sketch", format!("offset {offset}"));
                        }
                        if *offset < 24 && !ok {
                            out.fail("C20:offset<24-refused", format!("offset {offset} refused"));
                        }
                    }
                    Err(f) => out.fail(format!("C20:{}", f.key), f.detail),
                }
            }
        }
        out
    }
}
