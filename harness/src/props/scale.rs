//! A store with tens of thousands of events: the histories of the stateful checks have at most a few hundred
//! events, so anything that depends on *how many* entries a scan, a result set or a removal loop handles (a cap, a
//! 16-bit counter, a scan budget) is out of their reach. This scenario is shared by C05 (exact answers, newest-k
//! under a large limit), C17 (every access path, entry counts) and C18 (vanish removes all of its targets).

use crate::dbx::*;
use crate::engine::*;
use crate::model::*;
use pocket_db::ScreenResult;
use pocket_types::{Id, Kind, OwnedEvent, OwnedFilter, OwnedTags, Pubkey, Sig, Time};

#[derive(Clone, Copy, Debug, PartialEq)]
pub enum Focus {
    Queries,
    Paths,
    Vanish,
}

fn idb(id: Id) -> [u8; 32] {
    let mut a = [0u8; 32];
    a.copy_from_slice(id.as_slice());
    a
}

fn ev(i: usize, author: &[u8; 32], kind: u16, t: u64, tags: &[Vec<String>]) -> Result<OwnedEvent, String> {
    let mut id = [0x42u8; 32];
    id[..8].copy_from_slice(&(i as u64).to_be_bytes());
    id[8] = author[0];
    let tags = OwnedTags::new(tags).map_err(|e| e.to_string())?;
    OwnedEvent::new(Id::from_bytes(id), Kind::from_u16(kind), Pubkey::from_bytes(*author), Sig::from_bytes([0u8; 64]), &tags, Time::from_u64(t), b"").map_err(|e| e.to_string())
}

fn ids_of(st: &pocket_db::Store, f: &OwnedFilter) -> Result<Vec<[u8; 32]>, String> {
    match guard("Store::find_events", || st.find_events(f, true, 0, 0, |_| ScreenResult::Match).map(|(v, _)| v.iter().map(|e| idb(e.id())).collect::<Vec<[u8; 32]>>())) {
        Ok(Ok(v)) => Ok(v),
        Ok(Err(e)) => Err(format!("find_events error: {}", crate::props::c01::err_class(&e))),
        Err(f) => Err(f.key),
    }
}

/// `n` events of author A (kind 1, created_at 10_000 + i/2 so that pairs share a timestamp, tags t=bulk and
/// p=B), 40 events of author B (half of them gift wraps naming A), 10 of author C.
pub fn scale_scenario(prop: &str, n: usize, focus: Focus, out: &mut Outcome) {
    let fail = |out: &mut Outcome, key: &str, detail: String| out.fail(format!("{prop}:scale:{key}"), format!("store with {n} events of one author: {detail}"));
    let w = match World::new(0) {
        Ok(w) => w,
        Err(f) => {
            out.fail(format!("{prop}:{}", f.key), f.detail);
            return;
        }
    };
    let (a, b, c) = ([0xA1u8; 32], [0xB2u8; 32], [0xC3u8; 32]);
    let (ah, bh) = (hex(&a), hex(&b));
    let st = w.st();
    let mut all: Vec<(OwnedEvent, u8)> = Vec::with_capacity(n + 50);
    let bulk_tags = vec![vec!["t".to_string(), "bulk".to_string()], vec!["p".to_string(), bh.clone()]];
    for i in 0..n {
        match ev(i, &a, 1, 10_000 + (i as u64) / 2, &bulk_tags) {
            Ok(e) => all.push((e, 0)),
            Err(e) => return fail(out, "harness", e),
        }
    }
    for i in 0..40usize {
        let (kind, tags) = if i % 2 == 0 { (1059u16, vec![vec!["p".to_string(), ah.clone()]]) } else { (1u16, vec![vec!["t".to_string(), "bulk".to_string()]]) };
        match ev(1_000_000 + i, &b, kind, 9_000 + i as u64, &tags) {
            Ok(e) => all.push((e, 1)),
            Err(e) => return fail(out, "harness", e),
        }
    }
    for i in 0..10usize {
        match ev(2_000_000 + i, &c, 1, 20_000_000 + i as u64, &[vec!["p".to_string(), ah.clone()]]) {
            Ok(e) => all.push((e, 2)),
            Err(e) => return fail(out, "harness", e),
        }
    }
    for (e, _) in &all {
        match guard("Store::store_event", || st.store_event(e)) {
            Ok(Ok(_)) => {}
            Ok(Err(e)) => return fail(out, "store-failed", e.to_string()),
            Err(f) => return fail(out, &f.key, f.detail),
        }
    }
    out.nontrivial = true;
    out.label(format!("scale-{n}"));
    // expected order: newest first; equal timestamps in any order
    let expect = |pred: &dyn Fn(&OwnedEvent, u8) -> bool| -> Vec<(u64, [u8; 32])> {
        let mut v: Vec<(u64, [u8; 32])> = all.iter().filter(|(e, who)| pred(e, *who)).map(|(e, _)| (e.created_at().as_u64(), idb(e.id()))).collect();
        v.sort_by(|x, y| y.0.cmp(&x.0).then(x.1.cmp(&y.1)));
        v
    };
    let time_of: std::collections::HashMap<[u8; 32], u64> = all.iter().map(|(e, _)| (idb(e.id()), e.created_at().as_u64())).collect();
    let compare = |out: &mut Outcome, name: &str, got: &[[u8; 32]], want: &[(u64, [u8; 32])], limit: Option<usize>| -> bool {
        let want_n = limit.map(|l| l.min(want.len())).unwrap_or(want.len());
        if got.len() != want_n {
            fail(out, &format!("{name}:count"), format!("the {name} query returned {} events, {} qualify{}", got.len(), want.len(), limit.map(|l| format!(" (limit {l})")).unwrap_or_default()));
            return false;
        }
        let mut seen = std::collections::HashSet::new();
        let mut last = u64::MAX;
        for id in got {
            let Some(t) = time_of.get(id) else {
                fail(out, &format!("{name}:unknown-event"), hex(id));
                return false;
            };
            if !seen.insert(*id) {
                fail(out, &format!("{name}:duplicate"), hex(id));
                return false;
            }
            if *t > last {
                fail(out, &format!("{name}:order"), format!("created_at {t} after {last}"));
                return false;
            }
            last = *t;
        }
        // the multiset of timestamps equals that of the newest `want_n` qualifying events, and every id qualifies
        let want_ids: std::collections::HashSet<[u8; 32]> = want.iter().map(|x| x.1).collect();
        if got.iter().any(|id| !want_ids.contains(id)) {
            fail(out, &format!("{name}:non-matching-event"), String::new());
            return false;
        }
        let got_times: Vec<u64> = got.iter().map(|id| time_of[id]).collect();
        let want_times: Vec<u64> = want.iter().take(want_n).map(|x| x.0).collect();
        if got_times != want_times {
            let pos = got_times.iter().zip(want_times.iter()).position(|(x, y)| x != y).unwrap_or(0);
            fail(out, &format!("{name}:not-the-newest"), format!("position {pos}: created_at {} returned, {} expected", got_times[pos], want_times[pos]));
            return false;
        }
        true
    };
    let empty = OwnedTags::empty();
    let mk = |authors: &[[u8; 32]], kinds: &[u16], tags: &[Vec<String>], since: Option<u64>, until: Option<u64>, limit: Option<u32>| -> Result<OwnedFilter, String> {
        let au: Vec<Pubkey> = authors.iter().map(|x| Pubkey::from_bytes(*x)).collect();
        let ks: Vec<Kind> = kinds.iter().map(|k| Kind::from_u16(*k)).collect();
        let t = if tags.is_empty() { empty.clone() } else { OwnedTags::new(tags).map_err(|e| e.to_string())? };
        OwnedFilter::new(&[], &au, &ks, &t, since.map(Time::from_u64), until.map(Time::from_u64), limit).map_err(|e| e.to_string())
    };
    let t_bulk = vec![vec!["t".to_string(), "bulk".to_string()]];
    let p_b = vec![vec!["p".to_string(), bh.clone()]];
    let big_limit = n.saturating_sub(3).max(1);
    type Pred = Box<dyn Fn(&OwnedEvent, u8) -> bool>;
    let plans: Vec<(&str, Result<OwnedFilter, String>, Pred, Option<usize>)> = vec![
        ("author", mk(&[a], &[], &[], None, None, None), Box::new(|_, who| who == 0), None),
        ("author+kind", mk(&[a], &[1], &[], None, None, None), Box::new(|_, who| who == 0), None),
        ("tag", mk(&[], &[], &t_bulk, None, None, None), Box::new(|e, who| who == 0 || (who == 1 && e.kind().as_u16() == 1)), None),
        ("kind+tag", mk(&[], &[1], &p_b, None, None, None), Box::new(|_, who| who == 0), None),
        ("author+tag", mk(&[a], &[], &p_b, None, None, None), Box::new(|_, who| who == 0), None),
        ("time-window", mk(&[], &[], &[], Some(9_500), Some(10_000_000), None), Box::new(|e, _| (9_500..=10_000_000).contains(&e.created_at().as_u64())), None),
        ("everything", mk(&[], &[], &[], None, None, None), Box::new(|_, _| true), None),
        ("author:limit", mk(&[a], &[], &[], None, None, Some(big_limit as u32)), Box::new(|_, who| who == 0), Some(big_limit)),
        ("tag:limit", mk(&[], &[], &t_bulk, None, None, Some(big_limit as u32)), Box::new(|e, who| who == 0 || (who == 1 && e.kind().as_u16() == 1)), Some(big_limit)),
        ("time-window:limit", mk(&[], &[], &[], Some(9_000), None, Some(big_limit as u32)), Box::new(|e, _| e.created_at().as_u64() >= 9_000), Some(big_limit)),
    ];
    if focus != Focus::Vanish {
        for (name, f, pred, limit) in &plans {
            let f = match f {
                Ok(f) => f,
                Err(e) => return fail(out, "harness", e.clone()),
            };
            let got = match ids_of(st, f) {
                Ok(v) => v,
                Err(e) => return fail(out, &format!("{name}:{e}"), String::new()),
            };
            let want = expect(&**pred);
            if !compare(out, name, &got, &want, *limit) {
                return;
            }
        }
        // the oldest bulk event through the shapes its own fields satisfy
        let oldest = &all[0].0;
        for (shape, f) in [
            ("time-window", mk(&[], &[], &[], Some(10_000), Some(10_000), None)),
            ("kind+time-window", mk(&[], &[1], &[], Some(10_000), Some(10_000), None)),
            ("author+since-until", mk(&[a], &[], &[], Some(10_000), Some(10_000), None)),
        ] {
            let f = match f {
                Ok(f) => f,
                Err(e) => return fail(out, "harness", e),
            };
            match ids_of(st, &f) {
                Ok(v) => {
                    if !v.contains(&idb(oldest.id())) {
                        return fail(out, &format!("oldest-event-missing:{shape}"), format!("{} events returned", v.len()));
                    }
                }
                Err(e) => return fail(out, &format!("{shape}:{e}"), String::new()),
            }
        }
        match guard("Store::stats", || st.stats()) {
            Ok(Ok(s)) => {
                let i = &s.index_stats;
                for (name, v) in [("i_index", i.i_index_entries), ("ci_index", i.ci_index_entries), ("ac_index", i.ac_index_entries), ("akc_index", i.akc_index_entries)] {
                    if v as usize != all.len() {
                        return fail(out, &format!("count:{name}"), format!("{v} entries, {} events stored", all.len()));
                    }
                }
            }
            Ok(Err(e)) => return fail(out, "stats-error", e.to_string()),
            Err(f) => return fail(out, &f.key, f.detail),
        }
    }
    if focus != Focus::Queries {
        // vanish A: every event of A and every gift wrap naming A goes, the rest stays
        let req = match ev(3_000_000, &a, 62, 30_000_000, &[]) {
            Ok(e) => e,
            Err(e) => return fail(out, "harness", e),
        };
        match guard("Store::vanish", || st.vanish(&req)) {
            Ok(Ok(())) => {}
            Ok(Err(e)) => return fail(out, "vanish-failed", e.to_string()),
            Err(f) => return fail(out, &f.key, f.detail),
        }
        let mut left = 0usize;
        for (e, who) in &all {
            let target = *who == 0 || (e.kind().as_u16() == 1059 && *who == 1);
            let has = match guard("Store::has_event", || st.has_event(e.id())) {
                Ok(Ok(b)) => b,
                Ok(Err(e)) => return fail(out, "has_event-error", e.to_string()),
                Err(f) => return fail(out, &f.key, f.detail),
            };
            if target && has {
                return fail(out, "vanish:target-still-retrievable", format!("event with created_at {} of the vanished key (or a gift wrap naming it) is still there", e.created_at().as_u64()));
            }
            if !target && !has {
                return fail(out, "vanish:removed-non-target", format!("event with created_at {}", e.created_at().as_u64()));
            }
            if has {
                left += 1;
            }
        }
        for (name, f) in [("author", mk(&[a], &[], &[], None, None, None)), ("kind+tag", mk(&[], &[1], &p_b, None, None, None)), ("time-window", mk(&[], &[], &[], Some(10_000), Some(10_000_000), None))] {
            let f = match f {
                Ok(f) => f,
                Err(e) => return fail(out, "harness", e),
            };
            match ids_of(st, &f) {
                Ok(v) if v.is_empty() => {}
                Ok(v) => return fail(out, &format!("vanish:target-still-returned-by:{name}"), format!("{} events", v.len())),
                Err(e) => return fail(out, &format!("{name}:{e}"), String::new()),
            }
        }
        match guard("Store::stats", || st.stats()) {
            Ok(Ok(s)) => {
                let i = &s.index_stats;
                for (name, v) in [("i_index", i.i_index_entries), ("ci_index", i.ci_index_entries), ("ac_index", i.ac_index_entries), ("akc_index", i.akc_index_entries)] {
                    if v as usize != left {
                        return fail(out, &format!("vanish:count:{name}"), format!("{v} entries, {left} events left"));
                    }
                }
            }
            Ok(Err(e)) => return fail(out, "stats-error", e.to_string()),
            Err(f) => return fail(out, &f.key, f.detail),
        }
    }
    drop(w);
}

/// C16 at scale: `n` events of one author plus 16 deletion requests naming 300 absent ids each (4,800 id markers);
/// rebuild; every query plan, every marker, every entry count as before, and no byte of anything else in the new
/// event map.
pub fn scale_rebuild(n: usize, out: &mut Outcome) {
    let fail = |out: &mut Outcome, key: &str, detail: String| out.fail(format!("C16:scale:{key}"), format!("store with {n} events and 4,800 deletion markers: {detail}"));
    let mut w = match World::new(0) {
        Ok(w) => w,
        Err(f) => {
            out.fail(format!("C16:{}", f.key), f.detail);
            return;
        }
    };
    let (a, c) = ([0xA1u8; 32], [0xC3u8; 32]);
    let mut all: Vec<OwnedEvent> = Vec::with_capacity(n + 16);
    let tags = vec![vec!["t".to_string(), "bulk".to_string()]];
    for i in 0..n {
        match ev(i, &a, 1, 10_000 + (i as u64) / 2, &tags) {
            Ok(e) => all.push(e),
            Err(e) => return fail(out, "harness", e),
        }
    }
    let mut marked: Vec<[u8; 32]> = Vec::new();
    for r in 0..16usize {
        let mut dtags = Vec::new();
        for j in 0..300usize {
            let mut id = [0xDDu8; 32];
            id[..8].copy_from_slice(&((r * 300 + j) as u64).to_be_bytes());
            marked.push(id);
            dtags.push(vec!["e".to_string(), hex(&id)]);
        }
        match ev(5_000_000 + r, &c, 5, 50_000 + r as u64, &dtags) {
            Ok(e) => all.push(e),
            Err(e) => return fail(out, "harness", e),
        }
    }
    {
        let st = w.st();
        for e in &all {
            match guard("Store::store_event", || st.store_event(e)) {
                Ok(Ok(_)) => {}
                Ok(Err(e)) => return fail(out, "store-failed", e.to_string()),
                Err(f) => return fail(out, &f.key, f.detail),
            }
        }
    }
    out.nontrivial = true;
    out.label(format!("scale-rebuild-{n}"));
    let empty = OwnedTags::empty();
    let observe = |w: &World| -> Result<(Vec<Vec<[u8; 32]>>, Vec<u64>, usize), String> {
        let st = w.st();
        let mut answers = Vec::new();
        let t = OwnedTags::new(&[vec!["t".to_string(), "bulk".to_string()]]).map_err(|e| e.to_string())?;
        for f in [
            OwnedFilter::new(&[], &[Pubkey::from_bytes(a)], &[], &empty, None, None, None),
            OwnedFilter::new(&[], &[], &[Kind::from_u16(1)], &t, None, None, None),
            OwnedFilter::new(&[], &[], &[], &empty, Some(Time::from_u64(9_000)), Some(Time::from_u64(90_000)), None),
            OwnedFilter::new(&[], &[Pubkey::from_bytes(c)], &[Kind::from_u16(5)], &empty, None, None, None),
        ] {
            let f = f.map_err(|e| e.to_string())?;
            let mut v = ids_of(st, &f)?;
            v.sort();
            answers.push(v);
        }
        let s = match guard("Store::stats", || st.stats()) {
            Ok(Ok(s)) => s,
            Ok(Err(e)) => return Err(e.to_string()),
            Err(f) => return Err(f.key),
        };
        let i = &s.index_stats;
        let counts = vec![
            i.general_entries as u64,
            i.i_index_entries as u64,
            i.ci_index_entries as u64,
            i.tc_index_entries as u64,
            i.ac_index_entries as u64,
            i.akc_index_entries as u64,
            i.atc_index_entries as u64,
            i.ktc_index_entries as u64,
            i.deleted_index_entries as u64,
            i.deleted_naddr_index_entries as u64,
        ];
        Ok((answers, counts, s.event_bytes))
    };
    let markers = |w: &World| -> Result<Option<usize>, String> {
        let st = w.st();
        for (k, id) in marked.iter().enumerate() {
            match guard("Store::event_is_deleted", || st.event_is_deleted(Id::from_bytes(*id))) {
                Ok(Ok(true)) => {}
                Ok(Ok(false)) => return Ok(Some(k)),
                Ok(Err(e)) => return Err(e.to_string()),
                Err(f) => return Err(f.key),
            }
        }
        Ok(None)
    };
    let before = match observe(&w) {
        Ok(x) => x,
        Err(e) => return fail(out, &format!("observe-error:{e}"), "before the rebuild".into()),
    };
    match markers(&w) {
        Ok(None) => {}
        Ok(Some(k)) => return fail(out, "marker-missing-before-rebuild", format!("marker #{k}")),
        Err(e) => return fail(out, &format!("observe-error:{e}"), "before the rebuild".into()),
    }
    if before.0[0].len() != n {
        return fail(out, "author-query-count", format!("{} events returned before the rebuild", before.0[0].len()));
    }
    match w.rebuild() {
        Res::Ok(_) => {}
        other => return fail(out, &format!("rebuild-failed:{}", other.class()), format!("{other:?}")),
    }
    let after = match observe(&w) {
        Ok(x) => x,
        Err(e) => return fail(out, &format!("observe-error:{e}"), "after the rebuild".into()),
    };
    for (k, name) in ["author", "kind+tag", "time-window", "deletion-requests"].iter().enumerate() {
        if before.0[k] != after.0[k] {
            return fail(out, &format!("rebuild-changed:query:{name}"), format!("{} events before, {} after", before.0[k].len(), after.0[k].len()));
        }
    }
    if before.1 != after.1 {
        return fail(out, "rebuild-changed:entry-counts", format!("before {:?}, after {:?}", before.1, after.1));
    }
    match markers(&w) {
        Ok(None) => {}
        Ok(Some(k)) => return fail(out, "rebuild-changed:id-marker-lost", format!("marker #{k} of 4,800 is gone after the rebuild")),
        Err(e) => return fail(out, &format!("observe-error:{e}"), "after the rebuild".into()),
    }
    let sum: usize = all.iter().map(|e| (e.len() + 7) & !7).sum();
    let raw: usize = all.iter().map(|e| e.len()).sum();
    if after.2 < 8 + raw || after.2 > 8 + sum {
        return fail(out, "rebuild-space", format!("event_bytes {} after the rebuild, the {} retrievable events need {}..={} (without / with alignment padding to 8 bytes)", after.2, all.len(), 8 + raw, 8 + sum));
    }
    drop(w);
}
