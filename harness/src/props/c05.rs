//! C05 Queries return exactly the matching events, newest first, newest-k under limit.

use crate::dbx::*;
use crate::engine::*;
use crate::model::*;
use pocket_db::ScreenResult;
use proptest::prelude::*;
use serde::{Deserialize, Serialize};
use std::collections::{BTreeMap, BTreeSet};

#[derive(Clone, Debug, Serialize, Deserialize)]
pub enum IdSel {
    Event(u16),
    Absent(u8),
}

#[derive(Clone, Debug, Serialize, Deserialize)]
pub struct Query {
    pub ids: Vec<IdSel>,
    pub authors: Vec<u8>,
    pub kinds: Vec<u16>,
    /// (name, indexes into the tag value pool)
    pub tags: Vec<(String, Vec<u8>)>,
    /// additional authors / kinds / tag constraints copied from submitted events (so that several
    /// events qualify per index range)
    #[serde(default)]
    pub authors_of: Vec<u16>,
    #[serde(default)]
    pub kinds_of: Vec<u16>,
    #[serde(default)]
    pub tags_of: Vec<u16>,
    /// address-style query: author, kind and first single-letter tag of ONE stored event (what a client
    /// does to fetch an naddr); replaces authors / kinds / tags
    #[serde(default)]
    pub address_of: Option<u16>,
    /// multi-range query built from two stored events: (event a, event b, plan 0..6, limit 1..3); several index
    /// ranges with a small limit - the shape in which per-range early exits matter
    #[serde(default)]
    pub multi: Option<(u16, u16, u8, u8)>,
    pub since: Option<u64>,
    pub until: Option<u64>,
    pub limit: Option<u32>,
    /// screening: 0 = everything matches; otherwise event i is screened by (i * 7 + screen) % 8: 0 mismatch, 1 redacted
    pub screen: u8,
    pub allow_scraping: bool,
    pub allow_if_limited_to: u32,
    pub allow_if_max_seconds: u64,
}

#[derive(Clone, Debug, Serialize, Deserialize)]
pub struct Case {
    pub ops: Vec<Op>,
    pub queries: Vec<Query>,
    /// > 0: instead of a history, the scenario of props/scale.rs with this many events of one author
    #[serde(default)]
    pub scale: u32,
}

pub struct C05;

fn screen_of(i: usize, screen: u8) -> ScreenResult {
    if screen == 0 {
        return ScreenResult::Match;
    }
    match (i * 7 + screen as usize) % 8 {
        0 => ScreenResult::Mismatch,
        1 => ScreenResult::Redacted,
        _ => ScreenResult::Match,
    }
}

fn q_time() -> BoxedStrategy<u64> {
    prop_oneof![
        10 => 98u64..118,
        1 => Just(0u64),
        1 => Just(1u64 << 32),
        1 => Just(u64::MAX),
        1 => Just(u64::MAX - 1),
        1 => Just(4_000_000_000u64),
    ]
    .boxed()
}

pub fn query_strategy() -> BoxedStrategy<Query> {
    let tagc = (
        prop_oneof![12 => prop::sample::select(vec!["e", "p", "t", "a", "d"]).prop_map(|s| s.to_string()), 1 => Just("E".to_string()), 1 => Just("client".to_string()), 1 => Just("".to_string())],
        prop::collection::vec(prop_oneof![4 => 1u8..4, 1 => 0u8..20], 0..4),
    );
    (
        (
            prop_oneof![5 => Just(Vec::new()), 2 => prop::collection::vec(prop_oneof![6 => any::<u16>().prop_map(IdSel::Event), 1 => any::<u8>().prop_map(IdSel::Absent)], 1..5)],
            prop_oneof![2 => Just(Vec::new()), 3 => prop::collection::vec(0u8..4, 1..4)],
            prop_oneof![2 => Just(Vec::new()), 3 => prop::collection::vec(prop::sample::select(db_kind_pool()), 1..4)],
            prop_oneof![2 => Just(Vec::new()), 3 => prop::collection::vec(tagc, 1..4)],
        ),
        prop::option::weighted(0.4, q_time()),
        prop::option::weighted(0.4, q_time()),
        prop::option::weighted(0.6, prop_oneof![Just(0u32), Just(1), Just(2), Just(3), Just(5), Just(1000)]),
        prop_oneof![3 => Just(0u8), 2 => 1u8..8],
        prop::bool::weighted(0.7),
        prop::sample::select(vec![0u32, 2, 1000]),
        prop::sample::select(vec![0u64, 10, 1_000_000_000_000, u64::MAX]),
        (
            prop_oneof![2 => Just(Vec::new()), 1 => prop::collection::vec(any::<u16>(), 1..3)],
            prop_oneof![2 => Just(Vec::new()), 1 => prop::collection::vec(any::<u16>(), 1..4)],
            prop_oneof![3 => Just(Vec::new()), 1 => prop::collection::vec(any::<u16>(), 1..3)],
            prop::option::weighted(0.15, any::<u16>()),
            prop::option::weighted(0.25, (any::<u16>(), any::<u16>(), 0u8..6, 1u8..4)),
        ),
    )
        .prop_map(|((ids, authors, kinds, tags), since, until, limit, screen, allow_scraping, allow_if_limited_to, allow_if_max_seconds, (authors_of, kinds_of, tags_of, address_of, multi))| {
            // distinct tag names
            let mut seen = Vec::new();
            let tags = tags
                .into_iter()
                .filter(|(n, _)| {
                    if seen.contains(n) {
                        false
                    } else {
                        seen.push(n.clone());
                        true
                    }
                })
                .collect();
            Query {
                ids,
                authors,
                kinds,
                tags,
                since,
                until,
                limit,
                screen,
                allow_scraping,
                allow_if_limited_to,
                allow_if_max_seconds,
                authors_of,
                kinds_of,
                tags_of,
                address_of,
                multi,
            }
        })
        .boxed()
}

fn plan_of(f: &MFilter) -> &'static str {
    if !f.ids.is_empty() {
        "plan:ids"
    } else if !f.authors.is_empty() && !f.kinds.is_empty() {
        "plan:author+kind"
    } else if !f.authors.is_empty() && !f.tags.is_empty() {
        "plan:author+tag"
    } else if !f.kinds.is_empty() && !f.tags.is_empty() {
        "plan:kind+tag"
    } else if !f.tags.is_empty() {
        "plan:tag"
    } else if !f.authors.is_empty() {
        "plan:author"
    } else {
        "plan:scrape"
    }
}

fn now_secs() -> u64 {
    std::time::UNIX_EPOCH.elapsed().map(|d| d.as_secs()).unwrap_or(0)
}

impl Prop for C05 {
    type Case = Case;
    fn id(&self) -> &'static str {
        "C05"
    }
    fn rule(&self) -> String {
        "Cases: a history of 0..30 (thorough 0..100) store / version / remove / delete / vanish operations over the colliding pools, then 1..8 filters drawn from the same pools so that matches are common: 0..4 ids (of submitted events or absent), 0..3 authors, 0..3 kinds, 0..3 tag constraints (letters e p t a d, rarely E / a multi-letter name / an empty name) with 0..3 values each from the tag value pool, since/until from the timestamp window +-2 incl. inverted and far-future windows, limit in {none,0,1,2,3,5,1000}, a screening table (match / mismatch / redacted per event) and scraping allowances. Oracle: R = events fetchable by id; exp = {e in R: NIP-01 match and screen = Match}; the answer has no duplicates, only members of exp (byte-identical), created_at non-increasing; if |exp| <= limit it equals exp, else it has exactly limit events whose created_at multiset equals that of the limit newest of exp; redacted => some matching event in R is screened Redacted; Err(Scraper) only if no ids/authors/tags and not allowed and limit > threshold and window >= seconds (now sampled before and after; ambiguous or negative windows skipped); any other error or a panic is a violation. Filters with a non-letter or multi-letter or empty tag name are only checked for 'no panic'. Non-trivial: |R| >= 3 and exp non-empty; distinct by fingerprint.".into()
    }
    fn assumptions(&self) -> Vec<String> {
        vec![
            "The retrievable set is what get_event_by_id reports (C09/C11/C18 decide whether that set is right).".into(),
            "Tag constraints use single ASCII letters (NIP-01); other names are outside the exactness clause.".into(),
        ]
    }
    fn cases(&self, tier: Tier) -> u32 {
        tier.pick(6000, 100000)
    }
    fn strategy(&self, tier: Tier) -> BoxedStrategy<Case> {
        let w = OpWeights {
            store: 14,
            resubmit: 1,
            version: 4,
            remove: 1,
            delete_req: 1,
            delete_own: 1,
            vanish: 0,
            reopen: 0,
            rebuild: 0,
            extra: 0,
            pressure: 0,
            mass_delete: 0,
            big: 0,
        };
        let cfg = EvCfg {
            authors: 3,
            kind_weights: [8, 2, 2, 1, 1],
            tag_values: 3,
            tag_names: 0,
            narrow: true,
            ..EvCfg::default()
        };
        (history(w, cfg, tier.pick(30, 100)), prop::collection::vec(query_strategy(), 1..8))
            .prop_map(|(ops, queries)| Case { ops, queries, scale: 0 })
            .boxed()
    }
    fn label_floors(&self) -> Vec<(&'static str, f64)> {
        vec![
            ("nonempty-expected", 0.3),
            ("limit-cut", 0.05),
            ("plan:ids", 0.05),
            ("plan:author+kind", 0.05),
            ("plan:author+tag", 0.05),
            ("plan:kind+tag", 0.05),
            ("plan:tag", 0.05),
            ("plan:author", 0.05),
            ("plan:scrape", 0.05),
            ("multi-value-tag", 0.05),
            ("redaction", 0.03),
        ]
    }
    fn release_fraction(&self, tier: Tier) -> f64 {
        tier.pick(0.3, 0.1)
    }
    fn max_shrink_iters(&self) -> u32 {
        400
    }
    fn enumerated_subspaces(&self, tier: Tier) -> Vec<String> {
        vec![format!("large stores ({:?} events of one author + 50 others): every index plan unlimited and with a limit of n-3: exact set, newest first, newest-k", crate::props::c17::scale_sizes(tier))]
    }
    fn enumerate(&self, tier: Tier) -> Vec<Case> {
        crate::props::c17::scale_sizes(tier).into_iter().map(|n| Case { ops: Vec::new(), queries: Vec::new(), scale: n }).collect()
    }
    fn check(&self, c: &Case) -> Outcome {
        let mut out = Outcome::default();
        if c.scale > 0 {
            crate::props::scale::scale_scenario("C05", c.scale as usize, crate::props::scale::Focus::Queries, &mut out);
            return out;
        }
        let mut w = match World::new(0) {
            Ok(w) => w,
            Err(f) => {
                out.fail(format!("C05:{}", f.key), f.detail);
                return out;
            }
        };
        for (stepno, op) in c.ops.iter().enumerate() {
            let Some(conc) = w.concretise(op) else { continue };
            let step = w.apply(&conc);
            if let Res::Panic(k) = &step.res {
                out.fail(format!("C05:{k}"), format!("step {stepno} {:?}", op));
                return out;
            }
        }
        let r = match w.retrievable() {
            Ok(r) => r,
            Err(e) => {
                out.fail(format!("C05:observe-error:{e}"), "after the history");
                return out;
            }
        };
        let pool = tag_value_pool();
        let n = w.events.len();
        for (qn, q) in c.queries.iter().enumerate() {
            let f = MFilter {
                ids: q
                    .ids
                    .iter()
                    .filter_map(|s| match s {
                        IdSel::Event(i) => {
                            if n > 0 {
                                Some(w.events[idx16(*i, n)].id.clone())
                            } else {
                                None
                            }
                        }
                        IdSel::Absent(i) => Some(w.absent_ids[(*i as usize) % w.absent_ids.len()].clone()),
                    })
                    .collect(),
                authors: {
                    let mut a: Vec<String> = q.authors.iter().map(|a| author(*a)).collect();
                    if n > 0 {
                        a.extend(q.authors_of.iter().map(|i| w.events[idx16(*i, n)].pubkey.clone()));
                    }
                    a
                },
                kinds: {
                    let mut k = q.kinds.clone();
                    if n > 0 {
                        k.extend(q.kinds_of.iter().map(|i| w.events[idx16(*i, n)].kind));
                    }
                    k
                },
                tags: {
                    let mut t: Vec<(String, Vec<String>)> = q.tags.iter().map(|(n, vs)| (n.clone(), vs.iter().map(|i| pool[(*i as usize) % pool.len()].clone()).collect())).collect();
                    if n > 0 {
                        for i in &q.tags_of {
                            let e = &w.events[idx16(*i, n)];
                            if let Some(tag) = e.tags.iter().find(|t| t.len() >= 2 && t[0].len() == 1 && t[0].as_bytes()[0].is_ascii_alphabetic()) {
                                match t.iter_mut().find(|(nm, _)| *nm == tag[0]) {
                                    Some((_, vs)) => {
                                        if !vs.contains(&tag[1]) {
                                            vs.push(tag[1].clone())
                                        }
                                    }
                                    None => t.push((tag[0].clone(), vec![tag[1].clone()])),
                                }
                            }
                        }
                    }
                    t
                },
                since: q.since,
                until: q.until,
                limit: q.limit,
            };
            let mut f = f;
            if let (Some((a, b, plan, lim)), true) = (q.multi, n > 0) {
                let (ea, eb) = (&w.events[idx16(a, n)], &w.events[idx16(b, n)]);
                let first_tag = |e: &MEvent| e.tags.iter().find(|t| t.len() >= 2 && t[0].len() == 1 && t[0].as_bytes()[0].is_ascii_alphabetic()).map(|t| (t[0].clone(), t[1].clone()));
                let (name, v1) = first_tag(ea).unwrap_or(("t".to_string(), "x".to_string()));
                let v2 = match first_tag(eb) {
                    Some((nb, vb)) if nb == name && vb != v1 => vb,
                    _ => pool[1 + (b as usize % 3)].clone(),
                };
                let mut vals = vec![v1];
                if !vals.contains(&v2) {
                    vals.push(v2);
                }
                let two = |x: String, y: String| if x == y { vec![x] } else { vec![x, y] };
                let kinds2 = if ea.kind == eb.kind { vec![ea.kind] } else { vec![ea.kind, eb.kind] };
                f = MFilter { since: f.since, until: f.until, limit: Some(lim as u32), ..Default::default() };
                match plan {
                    0 => {
                        f.authors = two(ea.pubkey.clone(), eb.pubkey.clone());
                        f.kinds = kinds2;
                    }
                    1 => {
                        f.authors = two(ea.pubkey.clone(), eb.pubkey.clone());
                        f.tags = vec![(name, vals)];
                    }
                    2 => {
                        f.kinds = kinds2;
                        f.tags = vec![(name, vals)];
                    }
                    3 => {
                        vals.push(pool[2].clone());
                        vals.dedup();
                        f.tags = vec![(name, vals)];
                    }
                    4 => f.authors = two(ea.pubkey.clone(), eb.pubkey.clone()),
                    _ => {
                        f.ids = w.events.iter().skip(idx16(a, n)).take(4).map(|e| e.id.clone()).collect();
                    }
                }
                out.label("multi-range-query");
            } else if let (Some(i), true) = (q.address_of, n > 0) {
                // prefer an event that has a replaceable address
                let start = idx16(i, n);
                let pick = (0..n).map(|k| (start + k) % n).find(|k| World::address_of(&w.events[*k]).is_some()).unwrap_or(start);
                let e = &w.events[pick];
                f.ids.clear();
                f.authors = vec![e.pubkey.clone()];
                f.kinds = vec![e.kind];
                f.tags = e.tags.iter().find(|t| t.len() >= 2 && t[0].len() == 1 && t[0].as_bytes()[0].is_ascii_alphabetic()).map(|t| vec![(t[0].clone(), vec![t[1].clone()])]).unwrap_or_default();
                out.label("address-style-query");
            }
            let exact_domain = f.tags.iter().all(|(n, _)| n.len() == 1 && n.as_bytes()[0].is_ascii_alphabetic());
            let plan = plan_of(&f);
            out.label(plan);
            if f.tags.iter().any(|(_, v)| v.len() >= 2) {
                out.label("multi-value-tag");
            }
            if f.tags.len() >= 2 {
                out.label("multi-letter-filter");
            }
            let of = match f.to_owned_filter() {
                Ok(x) => x,
                Err(e) => {
                    out.fail("C05:filter-construction", e);
                    return out;
                }
            };
            let limit = f.limit.unwrap_or(u32::MAX) as usize;
            let screen = q.screen;
            let id_to_idx: &BTreeMap<String, usize> = &w.by_id;
            let now_before = now_secs();
            let st = w.st();
            let res = guard("Store::find_events", || {
                st.find_events(&of, q.allow_scraping, q.allow_if_limited_to, q.allow_if_max_seconds, |e| {
                    match id_to_idx.get(&hex(e.id().as_slice())) {
                        Some(i) => screen_of(*i, screen),
                        None => ScreenResult::Match,
                    }
                })
                .map(|(v, red)| (v.iter().map(|e| (hex(e.id().as_slice()), e.created_at().as_u64(), e.as_bytes().to_vec())).collect::<Vec<_>>(), red))
            });
            let now_after = now_secs();
            let res = match res {
                Ok(r) => r,
                Err(fl) => {
                    out.fail(format!("C05:{}", fl.key), format!("query {qn}: {:?}: {}", crate::engine::shorten(&serde_json::to_value(&f).unwrap(), 40), fl.detail));
                    return out;
                }
            };
            if !exact_domain {
                out.label("outside-exactness-domain");
                continue;
            }
            let matching: Vec<usize> = r.iter().copied().filter(|i| nip01_match(&f, &w.events[*i])).collect();
            let exp: Vec<usize> = matching.iter().copied().filter(|i| screen_of(*i, screen) == ScreenResult::Match).collect();
            let any_redacted = matching.iter().any(|i| screen_of(*i, screen) == ScreenResult::Redacted);
            if any_redacted {
                out.label("redaction");
            }
            if !exp.is_empty() {
                out.label("nonempty-expected");
                if r.len() >= 3 {
                    out.nontrivial = true;
                }
            }
            let fdesc = || format!("{:?}", crate::engine::shorten(&serde_json::to_value(&f).unwrap(), 40));
            match res {
                Ok((got, redacted)) => {
                    let mut seen = BTreeSet::new();
                    for (id, _, bytes) in &got {
                        if !seen.insert(id.clone()) {
                            out.fail(format!("C05:duplicate-in-answer:{plan}"), format!("query {qn} {}: {} returned twice", fdesc(), &id[..8]));
                            return out;
                        }
                        match w.by_id.get(id) {
                            Some(i) if exp.contains(i) => {
                                if *bytes != w.owned[*i].as_bytes() {
                                    out.fail(format!("C05:answer-bytes-differ:{plan}"), format!("query {qn}: {}", &id[..8]));
                                    return out;
                                }
                            }
                            Some(i) => {
                                let why = if !r.contains(i) {
                                    "not-retrievable"
                                } else if !nip01_match(&f, &w.events[*i]) {
                                    "does-not-match"
                                } else {
                                    "screened-out"
                                };
                                out.fail(format!("C05:unexpected-event:{why}:{plan}"), format!("query {qn} {}: returned {} which is {why}", fdesc(), w.events[*i].short()));
                                return out;
                            }
                            None => {
                                out.fail(format!("C05:unknown-event:{plan}"), format!("query {qn}: returned an event that was never submitted: {}", &id[..8]));
                                return out;
                            }
                        }
                    }
                    if got.windows(2).any(|x| x[0].1 < x[1].1) {
                        out.fail(format!("C05:not-newest-first:{plan}"), format!("query {qn} {}: created_at sequence {:?}", fdesc(), got.iter().map(|x| x.1).collect::<Vec<_>>()));
                        return out;
                    }
                    if exp.len() <= limit {
                        if got.len() != exp.len() {
                            let missing: Vec<String> = exp.iter().filter(|i| !seen.contains(&w.events[**i].id)).map(|i| w.events[*i].short()).collect();
                            out.fail(
                                format!("C05:missing-events:{plan}"),
                                format!("query {qn} {}: {} expected, {} returned; missing {:?}", fdesc(), exp.len(), got.len(), missing),
                            );
                            return out;
                        }
                    } else {
                        out.label("limit-cut");
                        let mut times: Vec<u64> = exp.iter().map(|i| w.events[*i].created_at).collect();
                        times.sort_unstable_by(|a, b| b.cmp(a));
                        if limit > 0 && times[limit - 1] == times[limit.min(times.len() - 1)] && times.len() > limit {
                            out.label("tie-at-cut");
                        }
                        times.truncate(limit);
                        let got_times: Vec<u64> = got.iter().map(|x| x.1).collect();
                        if got_times != times {
                            out.fail(
                                format!("C05:not-the-newest-k:{plan}"),
                                format!("query {qn} {}: limit {limit}, {} qualify; created_at of the answer {:?}, of the {limit} newest {:?}", fdesc(), exp.len(), got_times, times),
                            );
                            return out;
                        }
                    }
                    if redacted && !any_redacted {
                        out.fail(format!("C05:redacted-without-cause:{plan}"), format!("query {qn} {}: redacted flag set but no matching retrievable event is screened Redacted", fdesc()));
                        return out;
                    }
                }
                Err(e) => {
                    let class = classify_err(&e);
                    if class != Res::Scraper {
                        out.fail(format!("C05:query-error:{}:{plan}", class.class()), format!("query {qn} {}: {e}", fdesc()));
                        return out;
                    }
                    out.label("refused-as-scraper");
                    if plan != "plan:scrape" {
                        out.fail(format!("C05:scraper-refusal-of-indexed-filter:{plan}"), format!("query {qn} {}", fdesc()));
                        return out;
                    }
                    if now_before != now_after {
                        continue;
                    }
                    let until = f.until.unwrap_or(u64::MAX).min(now_before);
                    let since = f.since.unwrap_or(0);
                    if until < since {
                        continue; // negative window: unspecified
                    }
                    let window = until - since;
                    let covered = q.allow_scraping || (limit as u64) <= q.allow_if_limited_to as u64 || window < q.allow_if_max_seconds;
                    if covered {
                        out.fail(
                            "C05:scraper-refusal-although-allowed",
                            format!("query {qn} {}: allow={} limit={limit} thr={} window={window} max_seconds={}", fdesc(), q.allow_scraping, q.allow_if_limited_to, q.allow_if_max_seconds),
                        );
                        return out;
                    }
                }
            }
        }
        out
    }
}
