//! C06 The filter/event match predicate equals NIP-01 semantics.

use crate::engine::*;
use crate::jsonx::*;
use crate::model::*;
use pocket_types::Filter;
use proptest::prelude::*;
use serde::{Deserialize, Serialize};

#[derive(Clone, Debug, Serialize, Deserialize)]
pub struct Case {
    pub f: MFilter,
    pub e: MEvent,
    /// also parse the filter from JSON (only when every tag name is one ASCII letter)
    pub via_json: bool,
}

pub struct C06;

fn id_pool() -> Vec<String> {
    (0u8..5).map(|i| hex(&[i.wrapping_mul(37).wrapping_add(1); 32])).collect()
}

fn value_pool() -> Vec<String> {
    vec![
        "".into(), "x".into(), "xy".into(), "x\0".into(), "xyz".into(), "X".into(), "é".into(), " x".into(),
        hex(&[1u8; 32]), "y".into(),
        // a value equal to a tag name; 64-byte values that differ only in letter case
        "e".into(), "p".into(), hex(&[0xab; 32]), hex(&[0xab; 32]).to_uppercase(),
    ]
}

fn name_pool() -> Vec<String> {
    vec!["e".into(), "p".into(), "t".into(), "d".into(), "E".into(), "ab".into(), "".into(), "1".into(), "emoji".into()]
}

fn time_near() -> BoxedStrategy<u64> {
    prop_oneof![3 => 99u64..103, 1 => Just(0u64), 1 => Just(u64::MAX), 1 => Just(u64::MAX - 1), 1 => Just(1u64)].boxed()
}

fn ev_strategy() -> BoxedStrategy<MEvent> {
    (
        prop::sample::select(id_pool()),
        prop::sample::select(id_pool()),
        prop::sample::select(vec![0u16, 1, 3, 7, 30023, 65535]),
        time_near(),
        prop::collection::vec(
            prop_oneof![
                1 => Just(Vec::<String>::new()),
                1 => prop::sample::select(name_pool()).prop_map(|n| vec![n]),
                6 => (prop::sample::select(name_pool()), prop::collection::vec(prop::sample::select(value_pool()), 1..4)).prop_map(|(n, mut v)| { v.insert(0, n); v }),
            ],
            0..6,
        ),
    )
        .prop_map(|(id, pubkey, kind, created_at, tags)| MEvent {
            id,
            pubkey,
            sig: "00".repeat(64),
            kind,
            created_at,
            tags,
            content: String::new(),
        })
        .boxed()
}

fn filter_strategy() -> BoxedStrategy<MFilter> {
    (
        prop::collection::vec(prop::sample::select(id_pool()), 0..4),
        prop::collection::vec(prop::sample::select(id_pool()), 0..4),
        prop::collection::vec(prop::sample::select(vec![0u16, 1, 3, 7, 30023, 65535]), 0..4),
        prop::collection::vec((prop::sample::select(name_pool()), prop::collection::vec(prop::sample::select(value_pool()), 0..4)), 0..4),
        prop::option::weighted(0.5, time_near()),
        prop::option::weighted(0.5, time_near()),
        prop::option::weighted(0.3, 0u32..3),
        prop::bool::weighted(0.2),
    )
        .prop_map(|(ids, authors, kinds, tags, since, until, limit, keep_repeats)| {
            // mostly distinct names (a JSON filter object cannot repeat a member); a filter built from parts can
            // name a letter in several constraints, each of which must then be satisfied
            let mut seen = Vec::new();
            let tags = tags
                .into_iter()
                .filter(|(n, _)| {
                    if seen.contains(n) && !keep_repeats {
                        false
                    } else {
                        seen.push(n.clone());
                        true
                    }
                })
                .collect();
            MFilter { ids, authors, kinds, tags, since, until, limit }
        })
        .boxed()
}

/// Make the filter match the event, then (optionally) break exactly one clause.
fn force_match(f: &mut MFilter, e: &MEvent) {
    if !f.ids.is_empty() && !f.ids.contains(&e.id) {
        f.ids.push(e.id.clone());
    }
    if !f.authors.is_empty() && !f.authors.contains(&e.pubkey) {
        f.authors.push(e.pubkey.clone());
    }
    if !f.kinds.is_empty() && !f.kinds.contains(&e.kind) {
        f.kinds.push(e.kind);
    }
    if let Some(s) = f.since {
        if s > e.created_at {
            f.since = Some(e.created_at);
        }
    }
    if let Some(u) = f.until {
        if u < e.created_at {
            f.until = Some(e.created_at);
        }
    }
    f.tags.retain(|(n, vs)| e.tags.iter().any(|t| t.len() >= 2 && t[0] == *n && vs.contains(&t[1])));
}

impl Prop for C06 {
    type Case = Case;
    fn id(&self) -> &'static str {
        "C06"
    }
    fn rule(&self) -> String {
        "Cases: (filter, event) pairs drawn from small shared pools (5 ids/authors, 6 kinds, times around 100 plus 0/1/u64::MAX, tag names incl. multi-letter and empty, values that are prefixes/NUL-extensions of each other) so that every clause is true about half the time; 45% of pairs are first forced to match and then have at most one clause broken (metamorphic family); 15% are 'straddle' pairs: the event's kind, id or pubkey is not listed but is made of the trailing bytes of one listed entry and the leading bytes of the next (or of the first entry of the following array), all other clauses matching. Filters are built with OwnedFilter::new and, when all names are single letters, also parsed from JSON. Oracle: a 20-line NIP-01 predicate over the models. Non-trivial: >= 2 active clauses including >= 1 tag constraint.".into()
    }
    fn assumptions(&self) -> Vec<String> {
        vec!["Filter tag constraints always carry a name; 20% of the filters repeat a name in several constraints (only possible when built from parts), each constraint then has to be satisfied on its own.".into()]
    }
    fn cases(&self, tier: Tier) -> u32 {
        tier.pick(800_000, 4_000_000)
    }
    fn strategy(&self, _tier: Tier) -> BoxedStrategy<Case> {
        (filter_strategy(), ev_strategy(), any::<bool>(), 0u8..25, any::<u16>())
            .prop_map(|(mut f, mut e, via_json, mode, sel)| {
                if mode < 9 {
                    force_match(&mut f, &e);
                    // break one clause (modes 1..=8) or none (mode 0)
                    match mode {
                        1 if !f.ids.is_empty() => f.ids.retain(|x| *x != e.id),
                        2 if !f.authors.is_empty() => f.authors.retain(|x| *x != e.pubkey),
                        3 if !f.kinds.is_empty() => f.kinds.retain(|x| *x != e.kind),
                        4 => f.since = Some(e.created_at.saturating_add(1)),
                        5 => f.until = Some(e.created_at.saturating_sub(1)),
                        6 => {
                            if let Some(t) = f.tags.first_mut() {
                                t.1.clear();
                            }
                        }
                        7 => {
                            // remove from the event the tag the first constraint relies on
                            if let Some((n, vs)) = f.tags.first().cloned() {
                                e.tags.retain(|t| !(t.len() >= 2 && t[0] == n && vs.contains(&t[1])));
                            }
                        }
                        8 => f.tags.push(("q".into(), vec![pick(&value_pool(), sel)])),
                        _ => {}
                    }
                    if f.ids.is_empty() && mode == 1 {
                        f.ids.push(hex(&[0xEE; 32]));
                    }
                    if f.authors.is_empty() && mode == 2 {
                        f.authors.push(hex(&[0xEE; 32]));
                    }
                    if f.kinds.is_empty() && mode == 3 {
                        f.kinds.push(e.kind.wrapping_add(1));
                    }
                }
                if mode == 24 {
                    // 60..90 tag constraints (only a filter built from parts can have that many): each satisfied by one of
                    // the event's tags, except - half of the time - exactly one, at a position of its own
                    let valued: Vec<(String, String)> = e.tags.iter().filter(|t| t.len() >= 2).map(|t| (t[0].clone(), t[1].clone())).collect();
                    if !valued.is_empty() {
                        force_match(&mut f, &e);
                        let n = 60 + (sel as usize % 31);
                        f.tags = (0..n).map(|i| { let (a, b) = valued[i % valued.len()].clone(); (a, vec![b, format!("other{i}")]) }).collect();
                        if sel & 0x8000 != 0 {
                            let k = (sel as usize >> 5) % n;
                            f.tags[k].1 = vec![format!("nothing-has-this-value-{k}")];
                        }
                    }
                } else if mode >= 20 {
                    // "straddle" family: the event carries a value that is not listed but whose bytes appear in the
                    // filter's packed arrays across the boundary of two neighbouring entries; every other clause is
                    // made to match, so the answer hangs on that clause alone
                    let i = sel as usize;
                    match mode {
                        20 if f.kinds.len() >= 2 => {
                            let a = f.kinds[i % (f.kinds.len() - 1)].to_le_bytes();
                            let b = f.kinds[i % (f.kinds.len() - 1) + 1].to_le_bytes();
                            e.kind = if sel & 0x100 == 0 { u16::from_le_bytes([a[1], b[0]]) } else { u16::from_be_bytes([a[1], b[0]]) };
                            let keep = f.kinds.clone();
                            force_match(&mut f, &e);
                            f.kinds = keep;
                        }
                        21 if f.ids.len() >= 2 => {
                            let k = i % (f.ids.len() - 1);
                            let cut = 2 * (1 + (sel as usize >> 4) % 31);
                            e.id = format!("{}{}", &f.ids[k][cut..], &f.ids[k + 1][..cut]);
                            let keep = f.ids.clone();
                            force_match(&mut f, &e);
                            f.ids = keep;
                        }
                        22 if f.authors.len() >= 2 => {
                            let k = i % (f.authors.len() - 1);
                            let cut = 2 * (1 + (sel as usize >> 4) % 31);
                            e.pubkey = format!("{}{}", &f.authors[k][cut..], &f.authors[k + 1][..cut]);
                            let keep = f.authors.clone();
                            force_match(&mut f, &e);
                            f.authors = keep;
                        }
                        23 if f.ids.len() >= 1 && f.authors.len() >= 1 => {
                            // the end of the id array runs into the author array
                            let cut = 2 * (1 + (sel as usize >> 4) % 31);
                            e.id = format!("{}{}", &f.ids[f.ids.len() - 1][cut..], &f.authors[0][..cut]);
                            let keep = f.ids.clone();
                            force_match(&mut f, &e);
                            f.ids = keep;
                        }
                        _ => {}
                    }
                }
                Case { f, e, via_json }
            })
            .boxed()
    }
    fn label_floors(&self) -> Vec<(&'static str, f64)> {
        vec![("expected:true", 0.15), ("expected:false", 0.3), ("tag-clause", 0.3)]
    }
    fn check(&self, c: &Case) -> Outcome {
        let mut out = Outcome::default();
        let exp = nip01_match(&c.f, &c.e);
        out.label(if exp { "expected:true" } else { "expected:false" });
        let active = (!c.f.ids.is_empty()) as u32
            + (!c.f.authors.is_empty()) as u32
            + (!c.f.kinds.is_empty()) as u32
            + c.f.since.is_some() as u32
            + c.f.until.is_some() as u32
            + c.f.tags.len() as u32;
        if !c.f.tags.is_empty() {
            out.label("tag-clause");
        }
        out.nontrivial = active >= 2 && !c.f.tags.is_empty();
        let ev = match c.e.to_owned_event() {
            Ok(e) => e,
            Err(e) => {
                out.fail("C06:event-construction", e);
                return out;
            }
        };
        let of = match c.f.to_owned_filter() {
            Ok(f) => f,
            Err(e) => {
                out.fail("C06:filter-construction", e);
                return out;
            }
        };
        match guard("Filter::event_matches", || of.event_matches(&ev).map_err(|e| e.to_string())) {
            Ok(Ok(got)) => {
                if got != exp {
                    out.fail(
                        format!("C06:mismatch:expected-{exp}"),
                        format!("event_matches = {got}, NIP-01 says {exp}; filter={:?} event={}", c.f, c.e.short()),
                    );
                    return out;
                }
            }
            Ok(Err(e)) => {
                out.fail("C06:error", format!("event_matches returned Err({e}) on well-formed operands"));
                return out;
            }
            Err(f) => {
                out.fail(format!("C06:{}", f.key), f.detail);
                return out;
            }
        }
        let mut names: Vec<&String> = c.f.tags.iter().map(|(n, _)| n).collect();
        names.sort();
        names.dedup();
        let single = names.len() == c.f.tags.len() && c.f.tags.iter().all(|(n, _)| n.len() == 1 && n.as_bytes()[0].is_ascii_alphabetic());
        if names.len() != c.f.tags.len() {
            out.label("repeated-constraint-names");
        }
        if c.via_json && single {
            out.label("via-json");
            let text = render_filter(&c.f, &Plan::default());
            let mut buf = vec![0u8; 70_000];
            let r = guard("Filter::from_json+event_matches", || match Filter::from_json(text.as_bytes(), &mut buf) {
                Ok((_, _, f)) => f.event_matches(&ev).map(Some).map_err(|e| e.to_string()),
                Err(_) => Ok(None),
            });
            match r {
                Ok(Ok(Some(got))) => {
                    if got != exp {
                        out.fail(
                            format!("C06:mismatch-json-filter:expected-{exp}"),
                            format!("event_matches (filter parsed from JSON) = {got}, NIP-01 says {exp}; filter={text} event={}", c.e.short()),
                        );
                    }
                }
                Ok(Ok(None)) => out.label("json-filter-rejected(C07)"),
                Ok(Err(e)) => out.fail("C06:error", format!("event_matches returned Err({e})")),
                Err(f) => out.fail(format!("C06:{}", f.key), f.detail),
            }
        }
        out
    }
}
