//! C01 Event JSON parsing is faithful to an independent JSON parser.

use crate::engine::*;
use crate::jsonx::*;
use crate::model::*;
use pocket_types::Event;
use proptest::prelude::*;
use serde::{Deserialize, Serialize};

#[derive(Clone, Debug, Serialize, Deserialize)]
pub enum Src {
    Model {
        ev: MEvent,
        plan: Plan,
        /// explicit integer texts (boundary tables / non-canonical forms)
        kind_txt: Option<String>,
        created_txt: Option<String>,
        upper_hex: bool,
        surrogate: bool,
        trailing: String,
        /// corrupt a hex field, keeping its byte length: (field 0 id / 1 pubkey / 2 sig, position, what)
        #[serde(default)]
        hex_corrupt: Option<(u8, u16, u8)>,
    },
    Raw {
        text: Bytes,
    },
}

#[derive(Clone, Debug, Serialize, Deserialize)]
pub struct Case {
    pub src: Src,
    /// 0 exact size, 1..=8 that many spare bytes, 9 => +4096, >=10 => 70 000 + input length
    pub buf: u8,
    pub fill: u8,
}

pub fn render_case(src: &Src) -> Vec<u8> {
    match src {
        Src::Raw { text } => text.to_vec(),
        Src::Model {
            ev,
            plan,
            kind_txt,
            created_txt,
            upper_hex,
            surrogate,
            trailing,
            hex_corrupt,
        } => {
            let mut ev = ev.clone();
            if let Some((field, pos, what)) = hex_corrupt {
                let f: &mut String = match field % 3 {
                    0 => &mut ev.id,
                    1 => &mut ev.pubkey,
                    _ => &mut ev.sig,
                };
                if f.is_ascii() && f.len() >= 4 {
                    let i = ((*pos as usize) * (f.len() - 1)) >> 16;
                    // two-byte characters replace two hex digits, one-byte ones replace one
                    let rep: &str = match what % 12 {
                        8 => "+",
                        9 => "-",
                        10 => "x",
                        11 => "G",
                        0 => "ñ",  // C3 B1
                        1 => "ð",  // C3 B0
                        2 => "ù",  // C3 B9
                        3 => "Ā",  // C4 80
                        4 => "g",
                        5 => " ",
                        6 => "¡",  // C2 A1
                        _ => "ÿ",  // C3 BF
                    };
                    f.replace_range(i..i + rep.len(), rep);
                }
            }
            if *upper_hex {
                ev.id = ev.id.to_uppercase();
                ev.sig = ev.sig.to_uppercase();
            }
            let k = kind_txt.clone().unwrap_or_else(|| ev.kind.to_string());
            let c = created_txt.clone().unwrap_or_else(|| ev.created_at.to_string());
            let mut t = render_event_with_ints(&ev, plan, &k, &c);
            if *surrogate {
                // put a surrogate-pair escape into the content string
                t = t.replacen("\"content\"", "\"content\"", 1);
                if let Some(p) = find_content_value_start(&t) {
                    t.insert_str(p + 1, "\\ud834\\udd1e");
                }
            }
            t.push_str(trailing);
            t.into_bytes()
        }
    }
}

fn find_content_value_start(t: &str) -> Option<usize> {
    // position of the opening quote of the content value, located with the independent reader's scanner
    let top = read_top_object(t.as_bytes())?;
    let idx = top.members.iter().position(|(k, _)| k == "content")?;
    let raw = &top.raw_values[idx];
    // find raw occurrence after the key
    let hay = t.as_bytes();
    let key = b"\"content\"";
    let mut from = 0;
    while let Some(kp) = find(hay, key, from) {
        let mut i = kp + key.len();
        while i < hay.len() && matches!(hay[i], b' ' | b'\t' | b'\n' | b'\r') {
            i += 1;
        }
        if hay.get(i) == Some(&b':') {
            i += 1;
            while i < hay.len() && matches!(hay[i], b' ' | b'\t' | b'\n' | b'\r') {
                i += 1;
            }
            if hay[i..].starts_with(raw) {
                return Some(i);
            }
        }
        from = kp + 1;
    }
    None
}

fn find(h: &[u8], n: &[u8], from: usize) -> Option<usize> {
    if from >= h.len() {
        return None;
    }
    h[from..].windows(n.len()).position(|w| w == n).map(|p| p + from)
}

pub fn err_class(e: &dyn std::fmt::Display) -> String {
    // error text without the trailing ", file:line:col" location and with numbers normalised
    let s = e.to_string();
    let s = match s.rfind(", ") {
        Some(p) if s[p..].contains(".rs:") => s[..p].to_string(),
        _ => s,
    };
    let mut out = String::new();
    let mut in_num = false;
    for c in s.chars() {
        if c.is_ascii_digit() {
            if !in_num {
                out.push('N');
            }
            in_num = true;
        } else {
            in_num = false;
            out.push(c);
        }
    }
    out
}

pub struct Parsed {
    pub consumed: usize,
    pub bytes: Vec<u8>,
    pub id: Vec<u8>,
    pub pubkey: Vec<u8>,
    pub sig: Vec<u8>,
    pub kind: u16,
    pub created_at: u64,
    pub tags: Vec<Vec<Vec<u8>>>,
    pub content: Vec<u8>,
    pub canary_ok: bool,
}

/// Parse with pocket into a buffer of `buflen` bytes filled with `fill`, with canaries after it.
pub fn pocket_parse_event(text: &[u8], buflen: usize, fill: u8) -> Result<Result<Parsed, String>, Fail> {
    const CANARY: usize = 64;
    let mut backing = vec![fill; buflen + CANARY];
    for b in backing[buflen..].iter_mut() {
        *b = 0xA5;
    }
    let r = guard("Event::from_json", || {
        let (buf, _) = backing.split_at_mut(buflen);
        match Event::from_json(text, buf) {
            Ok((n, ev)) => {
                let tags = ev.tags().map_err(|e| format!("INCONSISTENT: tags(): {e}"))?;
                let mut tv = Vec::new();
                for t in tags.iter() {
                    tv.push(t.map(|s| s.to_vec()).collect::<Vec<_>>());
                }
                // get_string must agree with iter
                for (i, t) in tv.iter().enumerate() {
                    for (j, s) in t.iter().enumerate() {
                        if tags.get_string(i, j) != Some(s.as_slice()) {
                            return Err(format!("INCONSISTENT: get_string({i},{j}) disagrees with iter"));
                        }
                    }
                    if tags.get_string(i, t.len()).is_some() {
                        return Err(format!("INCONSISTENT: get_string({i},{}) beyond the tag is Some", t.len()));
                    }
                }
                if tags.count() != tv.len() {
                    return Err("INCONSISTENT: count() disagrees with iter".into());
                }
                crate::model::iter_protocol("Tags::iter()", || tags.iter(), |t| t.map(|s| s.to_vec()).collect::<Vec<_>>(), &tv)?;
                for (i, want) in tv.iter().enumerate().take(3) {
                    crate::model::iter_protocol("tag string iterator", || tags.iter().nth(i).unwrap(), |s| s.to_vec(), want)?;
                }
                Ok(Parsed {
                    consumed: n,
                    bytes: ev.as_bytes().to_vec(),
                    id: ev.id().as_slice().to_vec(),
                    pubkey: ev.pubkey().as_slice().to_vec(),
                    sig: ev.sig().as_slice().to_vec(),
                    kind: ev.kind().as_u16(),
                    created_at: ev.created_at().as_u64(),
                    tags: tv,
                    content: ev.content().to_vec(),
                    canary_ok: true,
                })
            }
            Err(e) => Err(err_class(&e)),
        }
    })?;
    let canary_ok = backing[buflen..].iter().all(|b| *b == 0xA5);
    Ok(r.map(|mut p| {
        p.canary_ok = canary_ok;
        p
    }))
}

pub fn compare_with_view(p: &Parsed, v: &EventView) -> Option<(String, String)> {
    if p.consumed != v.end {
        return Some((
            "consumed-length".into(),
            format!("consumed {} but the object ends at {}", p.consumed, v.end),
        ));
    }
    let cmp_bytes = |name: &str, got: &[u8], exp: &Option<Vec<u8>>| -> Option<(String, String)> {
        match exp {
            Some(e) if e.as_slice() == got => None,
            Some(e) => Some((format!("accessor:{name}"), format!("{name}: pocket {} vs reader {}", hex(got), hex(e)))),
            None => Some((format!("accepted-ill-typed:{name}"), format!("{name} is not a hex string of the right length for the independent reader"))),
        }
    };
    if let Some(x) = cmp_bytes("id", &p.id, &v.id) {
        return Some(x);
    }
    if let Some(x) = cmp_bytes("pubkey", &p.pubkey, &v.pubkey) {
        return Some(x);
    }
    if let Some(x) = cmp_bytes("sig", &p.sig, &v.sig) {
        return Some(x);
    }
    match v.kind {
        Some(k) if k == p.kind as u128 => {}
        Some(k) => return Some(("accessor:kind".into(), format!("kind: pocket {} vs reader {}", p.kind, k))),
        None => return Some(("accepted-ill-typed:kind".into(), "kind is not a plain unsigned integer".into())),
    }
    match v.created_at {
        Some(k) if k == p.created_at as u128 => {}
        Some(k) => return Some(("accessor:created_at".into(), format!("created_at: pocket {} vs reader {}", p.created_at, k))),
        None => return Some(("accepted-ill-typed:created_at".into(), "created_at is not a plain unsigned integer".into())),
    }
    match &v.content {
        Some(c) if c.as_bytes() == p.content.as_slice() => {}
        Some(c) => {
            return Some((
                "accessor:content".into(),
                format!("content: pocket {:?} vs reader {:?}", String::from_utf8_lossy(&p.content), c),
            ))
        }
        None => return Some(("accepted-ill-typed:content".into(), "content is not a string".into())),
    }
    match &v.tags {
        Some(t) => {
            let got: Vec<Vec<Vec<u8>>> = p.tags.clone();
            let exp: Vec<Vec<Vec<u8>>> = t.iter().map(|x| x.iter().map(|s| s.as_bytes().to_vec()).collect()).collect();
            if got != exp {
                return Some((
                    "accessor:tags".into(),
                    format!(
                        "tags: pocket {:?} vs reader {:?}",
                        got.iter().map(|t| t.iter().map(|s| String::from_utf8_lossy(s).to_string()).collect::<Vec<_>>()).collect::<Vec<_>>(),
                        t
                    ),
                ));
            }
        }
        None => return Some(("accepted-ill-typed:tags".into(), "tags is not an array of arrays of strings".into())),
    }
    None
}

pub struct C01;

pub fn fixed_event() -> MEvent {
    MEvent {
        id: "a9663055164ab8b30d9524656370c4bf93393bb051b7edf4556f40c5298dc0c7".into(),
        pubkey: "ee11a5dff40c19a555f41fe42b48f00e618c91225622ae37b6c2bb67b76c4e49".into(),
        sig: "4dfea1a6f73141d5691e43afc3234dbe73016db0fb207cf247e0127cc2591ee6b4be5b462272030a9bde75882aae810f359682b1b6ce6cbb97201141c576db42".into(),
        kind: 1,
        created_at: 1681778790,
        tags: vec![
            vec!["client".into(), "gossip".into()],
            vec![],
            vec!["t".into(), "a\"b\\c/d\n".into(), "".into()],
        ],
        content: "He got \"snowed\" in\t†𝄞".into(),
    }
}

fn permutations(n: usize) -> Vec<Vec<u8>> {
    fn rec(cur: &mut Vec<u8>, used: &mut Vec<bool>, n: usize, out: &mut Vec<Vec<u8>>) {
        if cur.len() == n {
            out.push(cur.clone());
            return;
        }
        for i in 0..n {
            if !used[i] {
                used[i] = true;
                cur.push(i as u8);
                rec(cur, used, n, out);
                let _ = cur.pop();
                used[i] = false;
            }
        }
    }
    let mut out = Vec::new();
    rec(&mut Vec::new(), &mut vec![false; n], n, &mut out);
    out
}

pub const KIND_TABLE: [&str; 12] = [
    "0", "1", "65534", "65535", "65536", "99999", "4294967295", "4294967296", "4294967297", "100000000000000000000",
    "42949672960", "429496729600001",
];
pub const TIME_TABLE: [&str; 11] = [
    "0",
    "1",
    "9223372036854775808",
    "18446744073709551615",
    "18446744073709551616",
    "18446744073709551617",
    "10000000000000000000",
    "100000000000000000000",
    "1000000000000000000000000000000",
    "184467440737095516150",
    "36893488147419103232",
];

impl Prop for C01 {
    type Case = Case;
    fn id(&self) -> &'static str {
        "C01"
    }
    fn rule(&self) -> String {
        "Cases: an event model rendered to JSON text by a plan (member order permutation, whitespace at every token gap, per-character escape spelling, unknown members of any JSON shape at any position, explicit integer texts from boundary tables, optional upper-case hex / surrogate escape / trailing bytes), parsed into a buffer of exact or larger size with arbitrary prior contents. Oracle: serde_json based independent reader decides whether the text is in the must-accept domain and what every field is. Enumerated first: all 5040 member orders of one fixed event, each without and with one unknown member, and the kind x created_at boundary table. Non-trivial: text differs from the canonical rendering in at least two of {member order, whitespace, escape spelling, unknown member, boundary integer, trailing bytes}.".into()
    }
    fn assumptions(&self) -> Vec<String> {
        vec![
            "serde_json 1.0 is a standards-conforming JSON parser (the independent reader).".into(),
            "Must-accept domain excludes: surrogate-pair \\u escapes, escaped spellings of the seven known member names, upper-case hex, duplicate member names, integers not written as plain decimal digits, nesting deeper than serde_json's 128 levels; those texts are only checked for 'accepted => agrees'.".into(),
            "Buffer 'large enough' means at least the size of the binary event (144 + tag section + 4 + content bytes).".into(),
        ]
    }
    fn cases(&self, tier: Tier) -> u32 {
        tier.pick(100_000, 600_000)
    }
    fn enumerated_subspaces(&self, _tier: Tier) -> Vec<String> {
        vec![
            "all 5040 member orders of the fixed event, canonical spelling".into(),
            "all 5040 member orders x one unknown member at a position cycling through all 8".into(),
            format!("{} x {} kind/created_at integer texts", KIND_TABLE.len(), TIME_TABLE.len()),
            "minimal event texts: kind in {0,1,9,10} x created_at in {0,9,10} x content in {\"\",x} x 8 member orders, no tags".into(),
        ]
    }
    fn enumerate(&self, _tier: Tier) -> Vec<Case> {
        let ev = fixed_event();
        let mut v = Vec::new();
        let unknowns = [
            ("search", "\"x\""),
            ("x", "0"),
            ("i", "[1,{\"a\":[]}]"),
            ("kin", "null"),
            ("contents", "{\"content\":\"}\"}"),
            ("", "-1.5e3"),
            ("created_a", "true"),
            ("sig2", "\"\\\"\""),
        ];
        for (n, order) in permutations(7).into_iter().enumerate() {
            let base = Plan {
                order: order.clone(),
                ..Plan::default()
            };
            v.push(Case {
                src: Src::Model {
                    ev: ev.clone(),
                    plan: base.clone(),
                    kind_txt: None,
                    created_txt: None,
                    upper_hex: false,
                    surrogate: false,
                    trailing: String::new(),
                    hex_corrupt: None,
                },
                buf: (n % 11) as u8,
                fill: 0,
            });
            let (name, val) = unknowns[n % unknowns.len()];
            let mut p2 = base;
            p2.unknown = vec![Unknown {
                pos: (n % 8) as u8,
                name: name.to_string(),
                value: val.to_string(),
            }];
            v.push(Case {
                src: Src::Model {
                    ev: ev.clone(),
                    plan: p2,
                    kind_txt: None,
                    created_txt: None,
                    upper_hex: false,
                    surrogate: false,
                    trailing: String::new(),
                    hex_corrupt: None,
                },
                buf: 10,
                fill: 0xff,
            });
        }
        // the shortest possible event texts (333 bytes) and their neighbours
        for kind in [0u16, 1, 9, 10] {
            for created_at in [0u64, 9, 10] {
                for content in ["", "x"] {
                    for (n, order) in permutations(7).into_iter().enumerate().filter(|(n, _)| n % 720 == 0 || *n == 5039) {
                        let mut m = ev.clone();
                        m.kind = kind;
                        m.created_at = created_at;
                        m.tags = vec![];
                        m.content = content.to_string();
                        v.push(Case {
                            src: Src::Model {
                                ev: m,
                                plan: Plan { order, ..Plan::default() },
                                kind_txt: None,
                                created_txt: None,
                                upper_hex: false,
                                surrogate: false,
                                trailing: String::new(),
                                hex_corrupt: None,
                            },
                            buf: (n % 3) as u8 * 5,
                            fill: 0,
                        });
                    }
                }
            }
        }
        for k in KIND_TABLE {
            for t in TIME_TABLE {
                v.push(Case {
                    src: Src::Model {
                        ev: ev.clone(),
                        plan: Plan::default(),
                        kind_txt: Some(k.to_string()),
                        created_txt: Some(t.to_string()),
                        upper_hex: false,
                        surrogate: false,
                        trailing: String::new(),
                        hex_corrupt: None,
                    },
                    buf: 10,
                    fill: 0,
                });
            }
        }
        v
    }
    fn strategy(&self, tier: Tier) -> BoxedStrategy<Case> {
        let maxlen = tier.pick(40, 300);
        let depth = tier.pick(4, 12);
        let int_txt = |table: &'static [&'static str]| {
            prop_oneof![
                12 => Just(None),
                2 => prop::sample::select(table.to_vec()).prop_map(|s| Some(s.to_string())),
                1 => prop::sample::select(vec!["1.0", "1e0", "-0", "-1", "01", "1E2", "0.0", "+1", "0x10", " 7"]).prop_map(|s| Some(s.to_string())),
                1 => "[1-9][0-9]{0,24}".prop_map(Some),
                1 => prop_oneof!["[1-9][0-9]{19}", "[6-9][0-9]{4}", "[1-9][0-9]{5,6}"].prop_map(Some),
            ]
        };
        (
            mevent_strategy(tier.pick(6, 30), maxlen),
            plan_strategy(7, 3, depth),
            int_txt(&KIND_TABLE),
            int_txt(&TIME_TABLE),
            prop::bool::weighted(0.04),
            prop::bool::weighted(0.04),
            prop_oneof![
                5 => Just(String::new()),
                1 => prop::sample::select(vec![" ", "}", ",", "{\"id\":1}", "\n[]", "x", "\"", "]"]).prop_map(|s| s.to_string()),
            ],
            0u8..12,
            prop_oneof![Just(0u8), Just(0xffu8), any::<u8>()],
            prop::option::weighted(0.08, (0u8..3, any::<u16>(), 0u8..12)),
        )
            .prop_map(|(ev, plan, kind_txt, created_txt, upper_hex, surrogate, trailing, buf, fill, hex_corrupt)| Case {
                src: Src::Model {
                    ev,
                    plan,
                    kind_txt,
                    created_txt,
                    upper_hex,
                    surrogate,
                    trailing,
                    hex_corrupt,
                },
                buf,
                fill,
            })
            .boxed()
    }
    fn label_floors(&self) -> Vec<(&'static str, f64)> {
        vec![("must-accept", 0.40), ("unknown-member", 0.10), ("accepted", 0.30)]
    }
    fn check(&self, case: &Case) -> Outcome {
        let mut out = Outcome::default();
        let text = render_case(&case.src);
        let view = match event_view(&text) {
            Some(v) => v,
            None => {
                out.label("not-json-object");
                // still must not be accepted with nonsense: nothing to compare against
                return out;
            }
        };
        // classification
        let mut diffs = 0;
        if let Src::Model {
            plan,
            kind_txt,
            created_txt,
            trailing,
            hex_corrupt,
            ..
        } = &case.src
        {
            if hex_corrupt.is_some() {
                out.label("hex-field-corrupted");
            }
            if plan.order.iter().enumerate().any(|(i, x)| *x as usize != i) {
                diffs += 1;
                out.label("reordered");
            }
            if plan.ws.v.iter().any(|x| (*x as usize) % 6 >= 2) {
                diffs += 1;
                out.label("whitespace");
            }
            if plan.spell.v.iter().any(|x| x % 8 >= 5) {
                diffs += 1;
                out.label("escape-spelling");
            }
            if !plan.unknown.is_empty() {
                diffs += 1;
                out.label("unknown-member");
            }
            if kind_txt.is_some() || created_txt.is_some() {
                diffs += 1;
                out.label("explicit-integer");
            }
            if !trailing.is_empty() {
                diffs += 1;
                out.label("trailing-bytes");
            }
        } else {
            out.label("raw-text");
            diffs = 2;
        }
        let needed = match (&view.tags, &view.content) {
            (Some(t), Some(c)) if tags_size(t) <= 65535 => 144 + tags_size(t) + 4 + c.len(),
            _ => 0,
        };
        let buflen = if needed == 0 {
            70_000 + text.len()
        } else {
            match case.buf {
                0 => needed,
                1..=8 => needed + case.buf as usize,
                9 => needed + 4096,
                _ => 70_000 + text.len(),
            }
        };
        if needed != 0 && case.buf == 0 {
            out.label("exact-buffer");
        }
        if view.must_accept {
            out.label("must-accept");
        } else {
            out.label(format!("outside:{}", view.why_not));
        }
        out.nontrivial = diffs >= 2;
        let int_oor = view.kind.map(|k| k > 65535).unwrap_or(false) || view.created_at.map(|t| t > u64::MAX as u128).unwrap_or(false);
        let res = match pocket_parse_event(&text, buflen, case.fill) {
            Ok(r) => r,
            Err(f) => {
                if view.must_accept || int_oor {
                    out.fail(format!("C01:{}", f.key), f.detail);
                } else {
                    out.label("panic-outside-domain(C03)");
                }
                return out;
            }
        };
        match res {
            Ok(p) => {
                out.label("accepted");
                if int_oor {
                    out.fail(
                        "C01:int-out-of-range-accepted",
                        format!(
                            "kind {:?} / created_at {:?} do not fit, yet accepted as kind={} created_at={}",
                            view.kind, view.created_at, p.kind, p.created_at
                        ),
                    );
                    return out;
                }
                if !p.canary_ok {
                    out.fail("C01:wrote-past-buffer", "canary after the output buffer was modified");
                    return out;
                }
                if view.dup_known {
                    // RFC 8259 leaves the meaning of repeated names open, but every common parser (serde_json::Value,
                    // JSON.parse, Python) reports the last occurrence: an accepted text is compared with that
                    out.label("accepted-with-duplicate-known-member");
                }
                if let Some((k, d)) = compare_with_view(&p, &view) {
                    out.fail(format!("C01:{}{k}", if view.dup_known { "repeated-member:" } else { "" }), d);
                }
            }
            Err(e) if e.starts_with("INCONSISTENT") => {
                out.fail("C01:accessors-inconsistent", e);
            }
            Err(e) => {
                out.label("rejected");
                if view.must_accept {
                    out.fail(format!("C01:rejected:{}", e), format!("in-domain text rejected: {e}; text={:?}", String::from_utf8_lossy(&text)));
                }
            }
        }
        out
    }
}
