//! C16 Reopen and rebuild preserve everything observable.

use crate::dbx::*;
use crate::engine::*;
use pocket_db::Store;
use proptest::prelude::*;
use serde::{Deserialize, Serialize};

#[derive(Clone, Debug, Serialize, Deserialize)]
pub struct Case {
    pub ops: Vec<Op>,
    pub n_extra: u8,
    /// > 0: instead of a history, props/scale.rs::scale_rebuild with this many events
    #[serde(default)]
    pub scale: u32,
}

pub struct C16;

fn copy_dir(from: &std::path::Path, to: &std::path::Path) -> std::io::Result<()> {
    std::fs::create_dir_all(to)?;
    for e in std::fs::read_dir(from)? {
        let e = e?;
        let p = e.path();
        let t = to.join(e.file_name());
        if p.is_dir() {
            copy_dir(&p, &t)?;
        } else {
            let _ = std::fs::copy(&p, &t)?;
        }
    }
    Ok(())
}

impl Prop for C16 {
    type Case = Case;
    fn id(&self) -> &'static str {
        "C16"
    }
    fn rule(&self) -> String {
        "Cases: histories of 0..30 (thorough 0..120) operations leaving removed / replaced / deleted / ephemeral / failed-store bytes in the map, id and address deletion markers (d empty, NUL-extended, 182-byte-prefix-sharing, 183/300/600 bytes), 0..2 extra tables with rows, with Reopen and Rebuild inserted at random positions (two or more rebuilds in about a third of the histories). Oracle: the snapshot (see C12) is identical across drop+Store::new and across rebuild(); after rebuild 8 + sum(len) <= event_bytes <= 8 + sum(len + 7) over the retrievable events, event.map.bak and lmdb.bak exist, and a copy of the backup opens as a store with the pre-rebuild snapshot. Non-trivial: a rebuild of a state that has >= 1 unreferenced event in the map and >= 1 deletion marker or extra-table row.".into()
    }
    fn assumptions(&self) -> Vec<String> {
        vec![
            "rebuild() is called with no other user of the store (its documented precondition).".into(),
            "The backup is inspected through a copy, so that opening it does not modify the backup files the next step sees.".into(),
        ]
    }
    fn cases(&self, tier: Tier) -> u32 {
        tier.pick(2500, 30000)
    }
    fn strategy(&self, tier: Tier) -> BoxedStrategy<Case> {
        let w = OpWeights {
            store: 10,
            resubmit: 1,
            version: 4,
            remove: 2,
            delete_req: 3,
            delete_own: 4,
            vanish: 1,
            reopen: 2,
            rebuild: 3,
            extra: 3,
            pressure: 0,
            mass_delete: 1,
            big: 2,
        };
        (history(w, EvCfg::default(), tier.pick(30, 120)), 0u8..3, any::<bool>())
            .prop_map(|(mut ops, n_extra, end_rebuild)| {
                if end_rebuild {
                    ops.push(Op::Rebuild);
                }
                Case { ops, n_extra, scale: 0 }
            })
            .boxed()
    }
    fn label_floors(&self) -> Vec<(&'static str, f64)> {
        vec![("rebuild", 0.5), ("reopen", 0.3), ("two-rebuilds", 0.1)]
    }
    fn release_fraction(&self, tier: Tier) -> f64 {
        tier.pick(0.3, 0.1)
    }
    fn max_shrink_iters(&self) -> u32 {
        400
    }
    fn enumerated_subspaces(&self, tier: Tier) -> Vec<String> {
        vec![format!("rebuild of large stores ({:?} events + 16 deletion requests with 300 targets each): four query plans, ten entry counts, all 4,800 id markers and the space bound before/after", tier.pick(vec![5_300u32, 12_500], vec![5_300u32, 12_500, 70_000]))]
    }
    fn enumerate(&self, tier: Tier) -> Vec<Case> {
        tier.pick(vec![5_300u32, 12_500], vec![5_300u32, 12_500, 70_000]).into_iter().map(|n| Case { ops: Vec::new(), n_extra: 0, scale: n }).collect()
    }
    fn check(&self, c: &Case) -> Outcome {
        let mut out = Outcome::default();
        if c.scale > 0 {
            crate::props::scale::scale_rebuild(c.scale as usize, &mut out);
            return out;
        }
        let mut w = match World::new(c.n_extra as usize) {
            Ok(w) => w,
            Err(f) => {
                out.fail(format!("C16:{}", f.key), f.detail);
                return out;
            }
        };
        let mut rebuilds = 0;
        for (stepno, op) in c.ops.iter().enumerate() {
            let Some(conc) = w.concretise(op) else { continue };
            let structural = matches!(conc, Concrete::Reopen | Concrete::Rebuild);
            let before = if structural {
                match w.snapshot() {
                    Ok(s) => Some(s),
                    Err(e) => {
                        out.fail(format!("C16:snapshot-error:{e}"), format!("step {stepno}"));
                        return out;
                    }
                }
            } else {
                None
            };
            let (unreferenced, marks) = if matches!(conc, Concrete::Rebuild) {
                let r = w.retrievable().map(|r| r.len()).unwrap_or(0);
                let b = before.as_ref().unwrap();
                let marks = b.get("stats:deleted_index_entries").map(|s| s != "0").unwrap_or(false)
                    || b.get("stats:deleted_naddr_index_entries").map(|s| s != "0").unwrap_or(false)
                    || b.iter().any(|(k, v)| k.starts_with("extra:") && !v.is_empty());
                (w.offsets.len() > r, marks)
            } else {
                (false, false)
            };
            let step = w.apply(&conc);
            if let Res::Panic(k) = &step.res {
                out.fail(format!("C16:{k}"), format!("step {stepno} {:?}", op));
                return out;
            }
            let Some(before) = before else { continue };
            let what = if matches!(conc, Concrete::Rebuild) { "rebuild" } else { "reopen" };
            out.label(what);
            if !step.res.is_ok() {
                out.fail(
                    format!("C16:{what}-failed:{}", match &step.res { Res::Other(s) => s.clone(), r => r.class().to_string() }),
                    format!("step {stepno}: {what} returned {:?} (rebuild number {})", step.res, rebuilds + 1),
                );
                return out;
            }
            let after = match w.snapshot() {
                Ok(s) => s,
                Err(e) => {
                    out.fail(format!("C16:snapshot-error-after-{what}:{e}"), format!("step {stepno}"));
                    return out;
                }
            };
            if let Some((cat, d)) = diff_snapshots(&before, &after) {
                out.fail(format!("C16:{what}-changed:{cat}"), format!("step {stepno}: {d}"));
                return out;
            }
            if matches!(conc, Concrete::Rebuild) {
                rebuilds += 1;
                if rebuilds >= 2 {
                    out.label("two-rebuilds");
                }
                if unreferenced && marks {
                    out.nontrivial = true;
                }
                // compaction bound
                let r = match w.retrievable() {
                    Ok(r) => r,
                    Err(e) => {
                        out.fail(format!("C16:retrievable-error:{e}"), format!("step {stepno}"));
                        return out;
                    }
                };
                // every event starts at the next multiple of 8 after its predecessor: the end of the last one is
                // 8 + sum of the lengths rounded up to 8, minus the rounding of whichever event comes last
                let sum: usize = r.iter().map(|i| (w.owned[*i].len() + 7) & !7).sum();
                let raw: usize = r.iter().map(|i| w.owned[*i].len()).sum();
                let bytes = w.st().stats().map(|s| s.event_bytes).unwrap_or(0);
                // (lower bound: no padding at all; upper bound: every event padded to the next multiple of 8)
                if bytes < 8 + raw || bytes > 8 + sum {
                    out.fail(
                        "C16:rebuild-space",
                        format!("step {stepno}: event_bytes {bytes} after rebuild, the {} retrievable events need {}..={} (without / with alignment padding to 8 bytes)", r.len(), 8 + raw, 8 + sum),
                    );
                    return out;
                }
                // backup present and equal to the pre-rebuild state
                let bak_map = w.dir.path().join("event.map.bak");
                let bak_idx = w.dir.path().join("lmdb.bak");
                if !bak_map.is_file() || !bak_idx.is_dir() {
                    out.fail("C16:backup-missing", format!("step {stepno}: event.map.bak / lmdb.bak not present after rebuild"));
                    return out;
                }
                let scratch = match tempfile::Builder::new().prefix("bak").tempdir_in(scratch_base()) {
                    Ok(d) => d,
                    Err(_) => continue,
                };
                let ok = std::fs::copy(&bak_map, scratch.path().join("event.map")).is_ok() && copy_dir(&bak_idx, &scratch.path().join("lmdb")).is_ok();
                if !ok {
                    continue;
                }
                let n = w.n_extra;
                let sp = scratch.path().to_path_buf();
                match guard("Store::new(backup)", || Store::new(&sp, extra_names(n))) {
                    Ok(Ok(bst)) => {
                        match w.snapshot_with(&bst) {
                            Ok(bs) => {
                                if let Some((cat, d)) = diff_snapshots(&before, &bs) {
                                    out.fail(format!("C16:backup-differs:{cat}"), format!("step {stepno}: backup opened as a store differs from the pre-rebuild state: {d}"));
                                    return out;
                                }
                            }
                            Err(e) => {
                                out.fail(format!("C16:backup-snapshot-error:{e}"), format!("step {stepno}"));
                                return out;
                            }
                        }
                        close_store(bst);
                    }
                    Ok(Err(e)) => {
                        out.fail("C16:backup-does-not-open", format!("step {stepno}: {e}"));
                        return out;
                    }
                    Err(f) => {
                        out.fail(format!("C16:{}", f.key), f.detail);
                        return out;
                    }
                }
            }
        }
        out
    }
}
