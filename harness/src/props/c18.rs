//! C18 Explicit removal and vanish remove exactly their targets.

use crate::dbx::*;
use crate::engine::*;
use pocket_types::Kind;
use proptest::prelude::*;
use serde::{Deserialize, Serialize};
use std::collections::BTreeSet;

#[derive(Clone, Debug, Serialize, Deserialize)]
pub struct Case {
    pub ops: Vec<Op>,
    pub n_extra: u8,
    /// > 0: instead of a history, the scenario of props/scale.rs with this many events of one author
    #[serde(default)]
    pub scale: u32,
    /// > 0: the first 12 operations are also run in a traced child with up to this many injected system-call
    /// failures, one per run (odd: on the block file system)
    #[serde(default)]
    pub inject: u16,
}

pub struct C18;

pub fn giftwrap(author_i: u8, target: u8, shape: u8, t: u64) -> GenEvent {
    // kind 1059 whose p tag names `target` first / in a second p tag / only as a non-first value
    let pk = author(target);
    let other = crate::model::hex(&[0x77; 32]);
    let tags = match shape % 10 {
        0 | 4 => vec![vec!["p".to_string(), pk]],
        1 => vec![vec!["p".to_string(), other], vec!["p".to_string(), pk]],
        2 => vec![vec!["p".to_string(), other, pk]],
        3 => vec![vec!["e".to_string(), pk], vec!["P".to_string(), author(target)]],
        // values that are not the pubkey but collide with it where values are padded, cut or case-folded
        5 => vec![vec!["p".to_string(), format!("{pk}\0")]],
        6 => vec![vec!["p".to_string(), format!("{pk}{}", "\0".repeat(182 - 64))]],
        7 => vec![vec!["p".to_string(), pk.to_uppercase()]],
        8 => vec![vec!["p".to_string(), pk[..63].to_string()]],
        _ => vec![vec!["p".to_string(), format!("{pk}0")], vec!["p".to_string(), format!(" {pk}")]],
    };
    GenEvent {
        author: author_i,
        kind: 1059,
        created_at: t,
        tags,
        content_len: 5,
        idc: IdChoice::Hash,
        many: 0,
    }
}

impl Prop for C18 {
    type Case = Case;
    fn id(&self) -> &'static str {
        "C18"
    }
    fn rule(&self) -> String {
        "Cases: histories of 0..30 (thorough 0..100) operations: stores over all kinds incl. ephemeral ones and gift wraps (kind 1059 whose 'p' tag names a pool author as first value of the first or second p tag, or only as a non-first value / under another tag name / followed by NUL bytes, a further character, cut by one character or in upper case - the near misses), then removal of present / absent / already removed ids and vanish of authors with zero to many events; a few deletion requests and extra-table rows so that markers exist. Oracle per Remove/Vanish: the change of the retrievable set equals the independently computed target set ({id}; {e: pubkey = P} u {e: kind 1059 and some p tag's first value = hex(P)}); every deletion marker (ids, addresses) and every extra-table row is unchanged; a removed event that is resubmitted is never refused as deleted or duplicate unless a deletion request named it; ephemeral events store Ok but are never retrievable by id nor returned by any query of the snapshot panel. One history in 31 (its first 12 operations) is also run in a traced child process with up to 16 injected system-call failures (ENOSPC / EIO, one per run, half of the histories on ext4): a call that returns what it returns without the failure must have had its full effect, a failed store must have had none, and the end state must equal the reference history's (without the failed store). Non-trivial: a removal/vanish with a non-empty target set that leaves >= 2 other retrievable events, or a vanish with a near-miss gift wrap present.".into()
    }
    fn assumptions(&self) -> Vec<String> {
        vec!["vanish() is given an event whose only relevant field is its pubkey (the caller verifies the request).".into()]
    }
    fn cases(&self, tier: Tier) -> u32 {
        tier.pick(3000, 40000)
    }
    fn strategy(&self, tier: Tier) -> BoxedStrategy<Case> {
        let w = OpWeights {
            store: 10,
            resubmit: 3,
            version: 2,
            remove: 5,
            delete_req: 1,
            delete_own: 1,
            vanish: 3,
            reopen: 0,
            rebuild: 0,
            extra: 1,
            pressure: 0,
            mass_delete: 0,
            big: 0,
        };
        let cfg = EvCfg {
            kind_weights: [4, 2, 2, 3, 2],
            ..EvCfg::default()
        };
        let gw = (0u8..4, 0u8..4, 0u8..10, 100u64..116).prop_map(|(a, t, s, time)| Op::Store(giftwrap(a, t, s, time)));
        (
            prop::collection::vec(
                prop_oneof![
                    10 => op_strategy(w, cfg),
                    2 => gw,
                    // the key's own request to vanish, stored like any event before it is acted upon
                    1 => (0u8..4, 100u64..116).prop_map(|(a, t)| Op::Store(GenEvent { author: a, kind: 62, created_at: t, tags: vec![vec!["relay".to_string(), "ALL_RELAYS".to_string()]], content_len: 0, idc: IdChoice::Hash, many: 0 })),
                ],
                0..=tier.pick(30, 100),
            ),
            0u8..2,
            prop_oneof![tier.pick(60, 80) => Just(0u16), 1 => Just(tier.pick(16u16, 30u16)), 1 => Just(tier.pick(17u16, 31u16))],
        )
            .prop_map(|(ops, n_extra, inject)| Case { ops, n_extra, scale: 0, inject })
            .boxed()
    }
    fn label_floors(&self) -> Vec<(&'static str, f64)> {
        vec![("vanish-with-targets", 0.15), ("remove-present", 0.3)]
    }
    fn release_fraction(&self, tier: Tier) -> f64 {
        tier.pick(0.3, 0.1)
    }
    fn max_shrink_iters(&self) -> u32 {
        400
    }
    fn enumerated_subspaces(&self, tier: Tier) -> Vec<String> {
        vec![format!("vanish of a key with {:?} events (plus gift wraps naming it, plus 30 bystanders): every target gone by id and by query, every bystander kept, entry counts equal to what is left", crate::props::c17::scale_sizes(tier))]
    }
    fn enumerate(&self, tier: Tier) -> Vec<Case> {
        crate::props::c17::scale_sizes(tier).into_iter().map(|n| Case { ops: Vec::new(), n_extra: 0, scale: n, inject: 0 }).collect()
    }
    fn check(&self, c: &Case) -> Outcome {
        let mut out = Outcome::default();
        if c.scale > 0 {
            crate::props::scale::scale_scenario("C18", c.scale as usize, crate::props::scale::Focus::Vanish, &mut out);
            return out;
        }
        let mut w = match World::new(c.n_extra as usize) {
            Ok(w) => w,
            Err(f) => {
                out.fail(format!("C18:{}", f.key), f.detail);
                return out;
            }
        };
        // ids / addresses that some deletion request has named (resubmission may then be refused)
        let mut named: BTreeSet<String> = BTreeSet::new();
        let mut named_addr: BTreeSet<(u16, String, String)> = BTreeSet::new();
        let mut removed: BTreeSet<String> = BTreeSet::new();
        for (stepno, op) in c.ops.iter().enumerate() {
            let Some(conc) = w.concretise(op) else { continue };
            let watch = matches!(conc, Concrete::Remove(_) | Concrete::Vanish(_));
            let (r_before, s_before) = if watch {
                match (w.retrievable(), w.snapshot()) {
                    (Ok(r), Ok(s)) => (r, Some(s)),
                    (Err(e), _) | (_, Err(e)) => {
                        out.fail(format!("C18:observe-error:{e}"), format!("step {stepno}"));
                        return out;
                    }
                }
            } else {
                (BTreeSet::new(), None)
            };
            let step = w.apply(&conc);
            if let Res::Panic(k) = &step.res {
                out.fail(format!("C18:{k}"), format!("step {stepno} {:?}", op));
                return out;
            }
            match &step.kind {
                StepKind::Store(i) => {
                    let e = w.events[*i].clone();
                    if e.kind == 5 {
                        for t in &e.tags {
                            if t.len() >= 2 && t[0] == "e" {
                                let _ = named.insert(t[1].to_lowercase());
                            }
                            if t.len() >= 2 && t[0] == "a" {
                                if let Some(a) = crate::model::parse_addr(&t[1]) {
                                    let _ = named_addr.insert(a);
                                }
                            }
                        }
                    }
                    if crate::model::kind_is_ephemeral(e.kind) {
                        out.label("ephemeral-store");
                        if !matches!(step.res, Res::Ok(_)) {
                            // an ephemeral event may be refused only as deleted (its id was named by a deletion request)
                            if !(step.res == Res::Deleted && named.contains(&e.id)) {
                                out.fail("C18:ephemeral-store-refused", format!("step {stepno}: storing {} returned {:?}", e.short(), step.res));
                                return out;
                            }
                        }
                        match (w.get_by_id(&e.id), w.has(&e.id)) {
                            (Ok(None), Ok(false)) => {}
                            (Ok(_), Ok(_)) => {
                                out.fail("C18:ephemeral-retrievable-by-id", format!("step {stepno}: {}", e.short()));
                                return out;
                            }
                            (Err(x), _) | (_, Err(x)) => {
                                out.fail(format!("C18:observe-error:{x}"), format!("step {stepno}"));
                                return out;
                            }
                        }
                        // never in any query: ask the shapes its fields satisfy
                        for (shape, f) in crate::props::c17::derived_filters(&e) {
                            match w.query(&f) {
                                Ok(ids) => {
                                    if ids.contains(&e.id) {
                                        out.fail(format!("C18:ephemeral-in-query:{shape}"), format!("step {stepno}: {}", e.short()));
                                        return out;
                                    }
                                }
                                Err(x) => {
                                    out.fail(format!("C18:query-error:{x}"), format!("step {stepno}"));
                                    return out;
                                }
                            }
                        }
                    } else if removed.contains(&e.id) {
                        // resubmission of an explicitly removed event
                        let addr_named = World::address_of(&e).map(|a| named_addr.contains(&a)).unwrap_or(false);
                        if !named.contains(&e.id) && !addr_named {
                            out.label("resubmit-after-remove");
                            match step.res {
                                Res::Ok(_) | Res::Replaced => {
                                    if step.res.is_ok() {
                                        let _ = removed.remove(&e.id);
                                    }
                                }
                                _ => {
                                    out.fail(
                                        format!("C18:removed-event-refused:{}", step.res.class()),
                                        format!("step {stepno}: {} was removed (no deletion request names it) and its resubmission returned {:?}", e.short(), step.res),
                                    );
                                    return out;
                                }
                            }
                        }
                    }
                }
                StepKind::Remove(_) | StepKind::Vanish(_) => {
                    if !step.res.is_ok() {
                        out.fail(format!("C18:{}-failed", if matches!(step.kind, StepKind::Remove(_)) { "remove" } else { "vanish" }), format!("step {stepno}: {:?}", step.res));
                        return out;
                    }
                    let r_after = match w.retrievable() {
                        Ok(r) => r,
                        Err(e) => {
                            out.fail(format!("C18:observe-error:{e}"), format!("step {stepno}"));
                            return out;
                        }
                    };
                    let targets: BTreeSet<usize> = match &step.kind {
                        StepKind::Remove(id) => r_before.iter().copied().filter(|i| w.events[*i].id == *id).collect(),
                        StepKind::Vanish(a) => r_before
                            .iter()
                            .copied()
                            .filter(|i| {
                                let e = &w.events[*i];
                                e.pubkey == *a || (e.kind == 1059 && e.tags.iter().any(|t| t.len() >= 2 && t[0] == "p" && t[1] == *a))
                            })
                            .collect(),
                        _ => unreachable!(),
                    };
                    let expect: BTreeSet<usize> = r_before.difference(&targets).copied().collect();
                    let what = if matches!(step.kind, StepKind::Remove(_)) { "remove" } else { "vanish" };
                    if r_after != expect {
                        let extra_gone: Vec<String> = expect.difference(&r_after).map(|i| w.events[*i].short()).collect();
                        let survivors: Vec<String> = r_after.difference(&expect).map(|i| w.events[*i].short()).collect();
                        out.fail(
                            format!("C18:{what}:{}", if !extra_gone.is_empty() { "removed-non-target" } else { "target-survived" }),
                            format!("step {stepno}: {what} {:?}: non-targets gone: {:?}; targets still retrievable: {:?}", step.kind, extra_gone, survivors),
                        );
                        return out;
                    }
                    for i in &targets {
                        let _ = removed.insert(w.events[*i].id.clone());
                        // unretrievable by every path, not only by id
                        let e = w.events[*i].clone();
                        for (shape, f) in crate::props::c17::derived_filters(&e) {
                            match w.query(&f) {
                                Ok(ids) => {
                                    if ids.contains(&e.id) {
                                        out.fail(format!("C18:{what}:target-still-returned-by:{shape}"), format!("step {stepno}: {} was removed but a {shape} query still returns it", e.short()));
                                        return out;
                                    }
                                }
                                Err(x) => {
                                    out.fail(format!("C18:query-error:{x}"), format!("step {stepno}"));
                                    return out;
                                }
                            }
                        }
                    }
                    if !targets.is_empty() {
                        out.label(if what == "remove" { "remove-present" } else { "vanish-with-targets" });
                        if expect.len() >= 2 {
                            out.nontrivial = true;
                        }
                    }
                    if let StepKind::Vanish(a) = &step.kind {
                        let near = r_before.iter().any(|i| {
                            let e = &w.events[*i];
                            e.kind == 1059 && e.pubkey != *a && !targets.contains(i) && e.tags.iter().flatten().any(|s| s == a || s.to_lowercase().contains(&a[..63]))
                        });
                        if near {
                            out.label("vanish-near-miss");
                            out.nontrivial = true;
                        }
                    }
                    // markers and extra tables untouched
                    let s_after = match w.snapshot() {
                        Ok(s) => s,
                        Err(e) => {
                            out.fail(format!("C18:observe-error:{e}"), format!("step {stepno}"));
                            return out;
                        }
                    };
                    let s_before = s_before.unwrap();
                    for (k, v) in &s_before {
                        let watched = k.starts_with("event_is_deleted:") || k.starts_with("naddr_is_deleted_asof:") || k.starts_with("extra:") || k.starts_with("stats:deleted");
                        if watched && s_after.get(k) != Some(v) {
                            out.fail(
                                format!("C18:{what}:changed-marker:{}", k.split(':').next().unwrap_or("")),
                                format!("step {stepno}: {k}: {v} -> {:?}", s_after.get(k)),
                            );
                            return out;
                        }
                    }
                }
                _ => {}
            }
        }
        drop(w);
        if c.inject > 0 && out.fail.is_none() {
            // removal and vanish under injected I/O failures: a call that reports success must have had its full effect
            let short: Vec<Op> = c.ops.iter().take(12).cloned().collect();
            crate::props::c13::inject_faults("C18", &short, c.inject as usize, c.inject % 2 == 1, true, &mut out);
        }
        out
    }
}
