//! C17 Every access path agrees and index accounting never leaks.

use crate::dbx::*;
use crate::engine::*;
use crate::model::*;
use proptest::prelude::*;
use serde::{Deserialize, Serialize};

#[derive(Clone, Debug, Serialize, Deserialize)]
pub struct Case {
    pub ops: Vec<Op>,
    /// > 0: instead of a history, the scenario of props/scale.rs with this many events of one author
    #[serde(default)]
    pub scale: u32,
}

pub struct C17;

pub fn scale_sizes(tier: Tier) -> Vec<u32> {
    tier.pick(vec![5_300, 12_500, 70_000], vec![5_300, 12_500, 33_000, 70_000, 140_000])
}

/// The filter shapes an event's own fields satisfy.
pub fn derived_filters(e: &MEvent) -> Vec<(String, MFilter)> {
    let mut v = Vec::new();
    v.push(("ids".to_string(), MFilter { ids: vec![e.id.clone()], ..Default::default() }));
    v.push(("author".to_string(), MFilter { authors: vec![e.pubkey.clone()], ..Default::default() }));
    v.push(("author+kind".to_string(), MFilter { authors: vec![e.pubkey.clone()], kinds: vec![e.kind], ..Default::default() }));
    v.push(("time-window".to_string(), MFilter { since: Some(e.created_at), until: Some(e.created_at), ..Default::default() }));
    v.push(("kind+time-window".to_string(), MFilter { kinds: vec![e.kind], since: Some(e.created_at), until: Some(e.created_at), ..Default::default() }));
    // (events with hundreds of tags: the first few and the last few)
    let n = e.tags.len();
    for (ti, t) in e.tags.iter().enumerate() {
        if n > 12 && ti >= 4 && ti + 4 < n {
            continue;
        }
        if t.len() >= 2 && t[0].len() == 1 {
            let tf = MFilter { tags: vec![(t[0].clone(), vec![t[1].clone()])], ..Default::default() };
            v.push(("tag".to_string(), tf.clone()));
            let mut a = tf.clone();
            a.authors = vec![e.pubkey.clone()];
            v.push(("author+tag".to_string(), a));
            let mut k = tf.clone();
            k.kinds = vec![e.kind];
            v.push(("kind+tag".to_string(), k));
        }
    }
    v
}

/// Filter shapes that e's fields satisfy and that also name values of a second event `p`: several authors,
/// kinds or tag values in one filter make the store scan several index ranges for one answer. Without a limit and with one (the check sets
/// it to the exact number of matching retrievable events).
pub fn derived_filters_with(e: &MEvent, p: &MEvent) -> Vec<(String, MFilter)> {
    let mut v = Vec::new();
    for limit in [None, Some(1000u32)] {
        let l = if limit.is_some() { ":limit" } else { "" };
        v.push((format!("2authors+kind{l}"), MFilter { authors: vec![p.pubkey.clone(), e.pubkey.clone()], kinds: vec![e.kind], limit, ..Default::default() }));
        v.push((format!("2authors+2kinds{l}"), MFilter { authors: vec![e.pubkey.clone(), p.pubkey.clone()], kinds: vec![p.kind, e.kind], limit, ..Default::default() }));
        let et = e.tags.iter().find(|t| t.len() >= 2 && t[0].len() == 1);
        if let Some(et) = et {
            // the partner's value under the same letter if it has one, else an unused value
            let pv = p.tags.iter().find(|t| t.len() >= 2 && t[0] == et[0]).map(|t| t[1].clone()).unwrap_or_else(|| "no-such-value".to_string());
            let vals = if pv == et[1] { vec![et[1].clone()] } else { vec![pv, et[1].clone()] };
            v.push((format!("tag:2values{l}"), MFilter { tags: vec![(et[0].clone(), vals.clone())], limit, ..Default::default() }));
            v.push((format!("author+tag:2values{l}"), MFilter { authors: vec![e.pubkey.clone()], tags: vec![(et[0].clone(), vals.clone())], limit, ..Default::default() }));
            v.push((format!("2kinds+tag:2values{l}"), MFilter { kinds: vec![p.kind, e.kind], tags: vec![(et[0].clone(), vals)], limit, ..Default::default() }));
        }
    }
    v
}

impl Prop for C17 {
    type Case = Case;
    fn id(&self) -> &'static str {
        "C17"
    }
    fn rule(&self) -> String {
        "Cases: histories of 0..25 (thorough 0..80) operations (stores, new versions at replaceable addresses, own/foreign deletion requests, removes, vanishes) over events with repeated, > 182-byte, NUL-extended, empty and multi-string tags and the two extreme ids. Oracle after every step, for every event ever submitted: if it can be fetched by id, each filter its own fields satisfy (its id; author; author+kind; created_at window; kind+window; each single-letter tag's first value alone, with its author, with its kind; and the two-valued variants that also name the author / kind / tag value of the next submitted event, without a limit and with a limit equal to the number of retrievable events that match) returns it; if not, none of them returns it; has_event agrees; the id, time, author and author-kind index entry counts all equal the number of retrievable events. At the end every retrievable event is removed and all nine index entry counts must be zero. Non-trivial: a step that makes an event with >= 2 indexed tags unretrievable while another retrievable event shares one of its tag values.".into()
    }
    fn assumptions(&self) -> Vec<String> {
        vec!["'Retrievable' is what get_event_by_id reports; the other access paths are compared with it.".into()]
    }
    fn cases(&self, tier: Tier) -> u32 {
        tier.pick(2000, 30000)
    }
    fn strategy(&self, tier: Tier) -> BoxedStrategy<Case> {
        let w = OpWeights {
            store: 12,
            resubmit: 1,
            version: 4,
            remove: 3,
            delete_req: 2,
            delete_own: 3,
            vanish: 1,
            reopen: 0,
            rebuild: 0,
            extra: 0,
            pressure: 0,
            mass_delete: 0,
            big: 1,
        };
        history(w, EvCfg::default(), tier.pick(25, 80)).prop_map(|ops| Case { ops, scale: 0 }).boxed()
    }
    fn label_floors(&self) -> Vec<(&'static str, f64)> {
        vec![("removal-with-shared-tag", 0.1)]
    }
    fn release_fraction(&self, tier: Tier) -> f64 {
        tier.pick(0.4, 0.1)
    }
    fn max_shrink_iters(&self) -> u32 {
        400
    }
    fn enumerated_subspaces(&self, tier: Tier) -> Vec<String> {
        vec![format!("large stores ({:?} events of one author + 50 others): every index plan unlimited and with a limit of n-3, the oldest event through its own filter shapes, entry counts, then vanish and counts again", scale_sizes(tier))]
    }
    fn enumerate(&self, tier: Tier) -> Vec<Case> {
        scale_sizes(tier).into_iter().map(|n| Case { ops: Vec::new(), scale: n }).collect()
    }
    fn check(&self, c: &Case) -> Outcome {
        let mut out = Outcome::default();
        if c.scale > 0 {
            crate::props::scale::scale_scenario("C17", c.scale as usize, crate::props::scale::Focus::Paths, &mut out);
            return out;
        }
        let mut w = match World::new(0) {
            Ok(w) => w,
            Err(f) => {
                out.fail(format!("C17:{}", f.key), f.detail);
                return out;
            }
        };
        let mut prev_r: std::collections::BTreeSet<usize> = Default::default();
        let ops: Vec<Option<&Op>> = c.ops.iter().map(Some).chain(std::iter::once(None)).collect();
        for (stepno, op) in ops.iter().enumerate() {
            if let Some(op) = op {
                let Some(conc) = w.concretise(op) else { continue };
                let step = w.apply(&conc);
                if let Res::Panic(k) = &step.res {
                    out.fail(format!("C17:{k}"), format!("step {stepno} {:?}", op));
                    return out;
                }
            } else {
                // final phase: remove everything that is retrievable
                let r = match w.retrievable() {
                    Ok(r) => r,
                    Err(e) => {
                        out.fail(format!("C17:retrievable-error:{e}"), "final phase");
                        return out;
                    }
                };
                for i in r {
                    let id = w.events[i].id.clone();
                    let res = w.remove_id(&id);
                    if !res.is_ok() {
                        out.fail("C17:remove-failed", format!("final phase: {:?}", res));
                        return out;
                    }
                }
            }
            let r = match w.retrievable() {
                Ok(r) => r,
                Err(e) => {
                    out.fail(format!("C17:retrievable-error:{e}"), format!("step {stepno}"));
                    return out;
                }
            };
            // non-triviality: something with >= 2 indexed tags left while a sharer stays
            for gone in prev_r.difference(&r) {
                let g = &w.events[*gone];
                let indexed: Vec<&Vec<String>> = g.tags.iter().filter(|t| t.len() >= 2 && t[0].len() == 1).collect();
                if indexed.len() >= 2 && r.iter().any(|j| w.events[*j].tags.iter().any(|t| t.len() >= 2 && indexed.iter().any(|u| u[0] == t[0] && u[1] == t[1]))) {
                    out.nontrivial = true;
                    out.label("removal-with-shared-tag");
                }
            }
            prev_r = r.clone();
            for (i, e) in w.events.iter().enumerate() {
                let is_r = r.contains(&i);
                match w.has(&e.id) {
                    Ok(h) if h == is_r => {}
                    Ok(h) => {
                        out.fail("C17:has_event-disagrees", format!("step {stepno}: has_event={h} but get_event_by_id says {is_r} for {}", e.short()));
                        return out;
                    }
                    Err(x) => {
                        out.fail(format!("C17:has_event-error:{x}"), format!("step {stepno}"));
                        return out;
                    }
                }
                // the partner for the two-valued shapes: the next event in submission order (cyclically)
                let partner = &w.events[(i + 1) % w.events.len()];
                let mut shapes = derived_filters(e);
                if w.events.len() <= 40 {
                    shapes.extend(derived_filters_with(e, partner));
                }
                for (shape, mut f) in shapes {
                    if f.limit.is_some() {
                        // exactly as many as match (by the model): every match still has to be there
                        let m = r.iter().filter(|j| nip01_match(&MFilter { limit: None, ..f.clone() }, &w.events[**j])).count();
                        f.limit = Some(m.max(1) as u32);
                    }
                    match w.query(&f) {
                        Ok(ids) => {
                            let found = ids.iter().any(|x| *x == e.id);
                            if found != is_r {
                                out.fail(
                                    format!("C17:path-disagrees:{shape}:{}", if is_r { "missing" } else { "ghost" }),
                                    format!(
                                        "step {stepno}: {} is {} by id but the {shape} filter {} it; filter={:?}",
                                        e.short(),
                                        if is_r { "retrievable" } else { "not retrievable" },
                                        if found { "returns" } else { "does not return" },
                                        crate::engine::shorten(&serde_json::to_value(&f).unwrap(), 40)
                                    ),
                                );
                                return out;
                            }
                        }
                        Err(x) => {
                            out.fail(format!("C17:query-error:{shape}:{x}"), format!("step {stepno}: {}", e.short()));
                            return out;
                        }
                    }
                }
            }
            let stats = match w.st().stats() {
                Ok(s) => s.index_stats,
                Err(e) => {
                    out.fail("C17:stats-error", e.to_string());
                    return out;
                }
            };
            let n = r.len() as u64;
            for (name, v) in [("i", stats.i_index_entries), ("ci", stats.ci_index_entries), ("ac", stats.ac_index_entries), ("akc", stats.akc_index_entries)] {
                if v != n {
                    out.fail(format!("C17:index-count:{name}"), format!("step {stepno}: {name} index has {v} entries but {n} events are retrievable"));
                    return out;
                }
            }
            if op.is_none() {
                for (name, v) in [("tc", stats.tc_index_entries), ("atc", stats.atc_index_entries), ("ktc", stats.ktc_index_entries)] {
                    if v != 0 {
                        out.fail(format!("C17:index-leak:{name}"), format!("after removing every retrievable event the {name} index still has {v} entries"));
                        return out;
                    }
                }
            }
        }
        out
    }
}
