//! C11 Accepted deletions are permanent and deletion times never move backwards.

use crate::dbx::*;
use crate::engine::*;
use crate::model::*;
use pocket_types::{Addr, Kind, Pubkey};
use proptest::prelude::*;
use serde::{Deserialize, Serialize};
use std::collections::{BTreeMap, BTreeSet};

#[derive(Clone, Debug, Serialize, Deserialize)]
pub struct Case {
    pub ops: Vec<Op>,
}

pub struct C11;

type AddrKey = (u16, String, String);

#[derive(Default)]
struct Model {
    /// (id, requester) of every 'e' target of an accepted request
    accepted_e: BTreeSet<(String, String)>,
    /// ids named by any accepted request (whoever wrote it)
    named_ids: BTreeSet<String>,
    /// address -> accepted deletion times, in arrival order
    addr_del: BTreeMap<AddrKey, Vec<u64>>,
}

impl Model {
    fn covered(&self, e: &MEvent) -> Option<String> {
        if self.accepted_e.contains(&(e.id.clone(), e.pubkey.clone())) {
            return Some("id".into());
        }
        if let Some(a) = World::address_of(e) {
            if let Some(ts) = self.addr_del.get(&a) {
                if ts.iter().any(|t| e.created_at <= *t) {
                    return Some("address".into());
                }
            }
        }
        None
    }
    fn accept(&mut self, req: &MEvent) {
        for t in &req.tags {
            if t.len() < 2 {
                continue;
            }
            if t[0] == "e" {
                if let Some(b) = unhex(&t[1]) {
                    if b.len() == 32 {
                        let id = hex(&b);
                        let _ = self.accepted_e.insert((id.clone(), req.pubkey.clone()));
                        let _ = self.named_ids.insert(id);
                    }
                }
            } else if t[0] == "a" {
                if let Some((k, a, d)) = parse_addr(&t[1]) {
                    if (kind_is_replaceable(k) && d.is_empty()) || kind_is_param_replaceable(k) {
                        self.addr_del.entry((k, a, d)).or_default().push(req.created_at);
                    }
                }
            }
        }
    }
}

impl Prop for C11 {
    type Case = Case;
    fn id(&self) -> &'static str {
        "C11"
    }
    fn rule(&self) -> String {
        "Cases: histories of 0..35 (thorough 0..120) operations with, per id and per address, several deletion requests by the author (by 'e' and by 'a', timestamps from 3 below to 3 above the target's, so they arrive in non-monotone timestamp order) and several covered / uncovered events in every relative arrival order (request first, event first, resubmission, newer versions), followed by continuations with Reopen, Rebuild and further stores. Oracle after every step, with a model of the accepted requests (a request is accepted iff its store returned Ok): every submitted event covered by an accepted request of its own author (named id, or at a named address with created_at <= the request's created_at) is unretrievable; storing a covered event returns 'deleted'; an event at an address that is newer than every accepted deletion of it, and whose id no accepted request names, is never refused as deleted; naddr_is_deleted_asof of every address never decreases. Non-trivial: >= 2 accepted requests for one address in non-monotone timestamp order, or a covered event resubmitted after a reopen/rebuild.".into()
    }
    fn assumptions(&self) -> Vec<String> {
        vec![
            "Addresses are (author, kind, d) for kinds 30000-39999 and (author, kind, empty d) for kinds 0, 3, 10000-19999; 'a' tags naming other kinds or a replaceable kind with a non-empty d are not addresses of any event and are ignored by the model.".into(),
            "Ids named by a request of a different author while the event is unknown to the store are unspecified (may or may not be refused later) and excluded from the never-refused clause.".into(),
        ]
    }
    fn cases(&self, tier: Tier) -> u32 {
        tier.pick(4000, 60000)
    }
    fn strategy(&self, tier: Tier) -> BoxedStrategy<Case> {
        let w = OpWeights {
            store: 8,
            resubmit: 5,
            version: 6,
            remove: 1,
            delete_req: 2,
            delete_own: 9,
            vanish: 0,
            reopen: 2,
            rebuild: 1,
            extra: 0,
            pressure: 1,
            mass_delete: 0,
            big: 0,
        };
        let cfg = EvCfg {
            authors: 2,
            kind_weights: [2, 3, 5, 0, 1],
            max_tags: 2,
            extreme_ids: false,
            tag_values: 0,
            tag_names: 0,
            narrow: false,
        };
        history(w, cfg, tier.pick(35, 120)).prop_map(|ops| Case { ops }).boxed()
    }
    fn label_floors(&self) -> Vec<(&'static str, f64)> {
        vec![("accepted-request", 0.6), ("covered-store-refused", 0.3), ("non-monotone-requests", 0.06)]
    }
    fn release_fraction(&self, tier: Tier) -> f64 {
        tier.pick(0.3, 0.1)
    }
    fn max_shrink_iters(&self) -> u32 {
        400
    }
    fn check(&self, c: &Case) -> Outcome {
        let mut out = Outcome::default();
        let mut w = match World::new(0) {
            Ok(w) => w,
            Err(f) => {
                out.fail(format!("C11:{}", f.key), f.detail);
                return out;
            }
        };
        let mut m = Model::default();
        let mut asof_seen: BTreeMap<AddrKey, Option<u64>> = BTreeMap::new();
        let mut structural_seen = false;
        for (stepno, op) in c.ops.iter().enumerate() {
            let Some(conc) = w.concretise(op) else { continue };
            let pre_cover = if let Concrete::Store(i) = conc.inner() { m.covered(&w.events[*i]) } else { None };
            let pressured = conc.under_pressure();
            let step = w.apply(&conc);
            if let Res::Panic(k) = &step.res {
                out.fail(format!("C11:{k}"), format!("step {stepno} {:?}", op));
                return out;
            }
            match &step.kind {
                StepKind::Reopen | StepKind::Rebuild => {
                    structural_seen = true;
                    if !step.res.is_ok() {
                        out.label(format!("structural-failed:{}", step.res.class()));
                    }
                }
                StepKind::Store(i) => {
                    let e = w.events[*i].clone();
                    if let Some(why) = &pre_cover {
                        if step.res == Res::Deleted {
                            out.label("covered-store-refused");
                            if structural_seen {
                                out.nontrivial = true;
                                out.label("covered-after-reopen-or-rebuild");
                            }
                        } else if pressured && matches!(step.res, Res::Other(_)) {
                            // the injected fault (no reader slot) made the store fail before it could answer
                            out.label("covered-store-failed-under-pressure");
                        } else {
                            out.fail(
                                format!("C11:covered-event-not-refused:{why}:{}", step.res.class()),
                                format!("step {stepno}: {} is covered by an accepted deletion ({why}) but storing it returned {:?}", e.short(), step.res),
                            );
                            return out;
                        }
                    } else if step.res == Res::Deleted && !m.named_ids.contains(&e.id) {
                        out.fail(
                            "C11:uncovered-event-refused-as-deleted",
                            format!("step {stepno}: {} is newer than every accepted deletion of its address (times {:?}) and no request names its id, yet the store says Deleted", e.short(), World::address_of(&e).and_then(|a| m.addr_del.get(&a).cloned())),
                        );
                        return out;
                    }
                    if e.kind == 5 && step.res.is_ok() {
                        out.label("accepted-request");
                        m.accept(&e);
                        for ts in m.addr_del.values() {
                            if ts.len() >= 2 && ts.windows(2).any(|x| x[1] < x[0]) {
                                out.nontrivial = true;
                                out.label("non-monotone-requests");
                            }
                        }
                    }
                }
                _ => {}
            }
            if w.store.is_none() {
                out.fail("C11:store-unavailable", format!("step {stepno}: the store could not be reopened after {:?}", step.kind));
                return out;
            }
            // (1) covered => unretrievable
            for (i, e) in w.events.iter().enumerate() {
                if let Some(why) = m.covered(e) {
                    match w.get_by_id(&e.id) {
                        Ok(None) => {}
                        Ok(Some(_)) => {
                            out.fail(
                                format!("C11:covered-event-retrievable:{why}"),
                                format!("step {stepno} ({:?}): {} (event #{i}) is covered by an accepted deletion ({why}) but can be fetched by id", step.kind, e.short()),
                            );
                            return out;
                        }
                        Err(x) => {
                            out.fail(format!("C11:observe-error:{x}"), format!("step {stepno}"));
                            return out;
                        }
                    }
                }
            }
            // (4) reported deletion times never decrease
            let st = w.st();
            let mut addrs: BTreeSet<AddrKey> = m.addr_del.keys().cloned().collect();
            for e in &w.events {
                if let Some(a) = World::address_of(e) {
                    let _ = addrs.insert(a);
                }
            }
            for a in addrs {
                let pa = Addr { kind: Kind::from_u16(a.0), author: Pubkey::from_bytes(arr32(&a.1)), d: a.2.as_bytes().to_vec() };
                let now = match guard("naddr_is_deleted_asof", || st.naddr_is_deleted_asof(&pa)) {
                    Ok(Ok(v)) => v.map(|t| t.as_u64()),
                    Ok(Err(_)) => continue, // e.g. key too long for LMDB: no marker can exist
                    Err(f) => {
                        out.fail(format!("C11:{}", f.key), f.detail);
                        return out;
                    }
                };
                if let Some(prev) = asof_seen.get(&a) {
                    let decreased = match (prev, now) {
                        (Some(p), Some(n)) => n < *p,
                        (Some(_), None) => true,
                        _ => false,
                    };
                    if decreased {
                        out.fail(
                            format!("C11:deletion-time-decreased:{}", match &step.kind { StepKind::Store(_) => "store", StepKind::Reopen => "reopen", StepKind::Rebuild => "rebuild", _ => "other" }),
                            format!("step {stepno} ({:?}): naddr_is_deleted_asof({}:{}..:{:?}) went from {:?} to {:?}", step.kind, a.0, &a.1[..4], crate::engine::shorten(&serde_json::Value::String(a.2.clone()), 20), prev, now),
                        );
                        return out;
                    }
                }
                let _ = asof_seen.insert(a, now);
            }
        }
        out
    }
}
