//! C08 Event verification accepts exactly correctly hashed and signed events.

use crate::engine::*;
use crate::jsonx::*;
use crate::model::*;
use crate::sha256::sha256;
use pocket_types::{Event, Kind, OwnedEvent, OwnedTags, Time};
use proptest::prelude::*;
use secp256k1::{Keypair, Message, SECP256K1};
use serde::{Deserialize, Serialize};

#[derive(Clone, Debug, Serialize, Deserialize)]
pub enum Mutation {
    None,
    FlipId(u8),
    /// the same 64-bit pattern XORed into two different 8-byte words of the id (or pubkey): differences that cancel
    /// when words are folded together instead of compared one by one
    XorWords { pubkey: bool, a: u8, b: u8, mask: u64 },
    /// two 8-byte words of the id exchanged (sums and XORs over the words are unchanged)
    SwapIdWords(u8, u8),
    FlipPubkey(u8),
    FlipSig(u16),
    CreatedAt(bool),
    Kind(bool),
    EditString(u8, u8, String),
    MoveString(u8),
    AddTag(Vec<String>),
    RemoveTag(u8),
    SwapTags(u8, u8),
    AddEmptyTag(u8),
    AddEmptyString(u8),
    EditContent(String),
    /// replace id and signature by those of a different event by the same key
    ForeignIdSig,
}

#[derive(Clone, Debug, Serialize, Deserialize)]
pub struct Case {
    pub secret: String, // 64 hex
    pub kind: u16,
    pub created_at: u64,
    pub tags: Vec<Vec<String>>,
    pub content: String,
    pub mutation: Mutation,
    pub plan: Plan,
}

pub struct C08;

/// The de-facto NIP-01 canonical serialisation, produced by serde_json (independent of pocket).
pub fn canonical(pubkey_hex: &str, created_at: u64, kind: u16, tags: &[Vec<String>], content: &str) -> String {
    serde_json::to_string(&serde_json::json!([0, pubkey_hex, created_at, kind, tags, content])).unwrap()
}

/// Build a correctly hashed and signed model with the harness's own canonicaliser, SHA-256 and secp256k1 0.29.
pub fn sign_model(secret: &[u8; 32], kind: u16, created_at: u64, tags: &[Vec<String>], content: &str) -> Option<MEvent> {
    let kp = Keypair::from_seckey_slice(SECP256K1, secret).ok()?;
    let (xonly, _) = kp.x_only_public_key();
    let pk = hex(&xonly.serialize());
    let id = sha256(canonical(&pk, created_at, kind, tags, content).as_bytes());
    let sig = SECP256K1.sign_schnorr_no_aux_rand(&Message::from_digest(id), &kp);
    Some(MEvent {
        id: hex(&id),
        pubkey: pk,
        sig: hex(sig.as_ref()),
        kind,
        created_at,
        tags: tags.to_vec(),
        content: content.to_string(),
    })
}

fn flip(hexs: &str, bit: usize) -> String {
    let mut b = unhex(hexs).unwrap();
    let n = b.len() * 8;
    let bit = bit % n;
    b[bit / 8] ^= 1 << (bit % 8);
    hex(&b)
}

fn apply(m: &Mutation, e: &MEvent, secret: &[u8; 32]) -> MEvent {
    let mut x = e.clone();
    match m {
        Mutation::None => {}
        Mutation::FlipId(b) => x.id = flip(&x.id, *b as usize),
        Mutation::XorWords { pubkey, a, b, mask } => {
            let src = if *pubkey { x.pubkey.clone() } else { x.id.clone() };
            let mut bytes = crate::model::unhex(&src).unwrap_or_else(|| vec![0u8; 32]);
            let (wa, wb) = ((*a as usize) % 4, (*b as usize) % 4);
            let wb = if wa == wb { (wb + 1) % 4 } else { wb };
            let mask = if *mask == 0 { 1 } else { *mask };
            for (k, m) in mask.to_le_bytes().iter().enumerate() {
                bytes[wa * 8 + k] ^= m;
                bytes[wb * 8 + k] ^= m;
            }
            if *pubkey {
                x.pubkey = hex(&bytes);
            } else {
                x.id = hex(&bytes);
            }
        }
        Mutation::SwapIdWords(a, b) => {
            let mut bytes = crate::model::unhex(&x.id).unwrap_or_else(|| vec![0u8; 32]);
            let (wa, wb) = ((*a as usize) % 4, (*b as usize) % 4);
            let wb = if wa == wb { (wb + 1) % 4 } else { wb };
            for k in 0..8 {
                bytes.swap(wa * 8 + k, wb * 8 + k);
            }
            x.id = hex(&bytes);
        }
        Mutation::FlipPubkey(b) => x.pubkey = flip(&x.pubkey, *b as usize),
        Mutation::FlipSig(b) => x.sig = flip(&x.sig, *b as usize),
        Mutation::CreatedAt(up) => x.created_at = if *up { x.created_at.wrapping_add(1) } else { x.created_at.wrapping_sub(1) },
        Mutation::Kind(up) => x.kind = if *up { x.kind.wrapping_add(1) } else { x.kind.wrapping_sub(1) },
        Mutation::EditString(i, j, s) => {
            if !x.tags.is_empty() {
                let i = *i as usize % x.tags.len();
                if !x.tags[i].is_empty() {
                    let j = *j as usize % x.tags[i].len();
                    x.tags[i][j] = s.clone();
                }
            }
        }
        Mutation::MoveString(i) => {
            if x.tags.len() >= 2 {
                let i = *i as usize % (x.tags.len() - 1);
                if let Some(s) = x.tags[i].pop() {
                    x.tags[i + 1].insert(0, s);
                }
            }
        }
        Mutation::AddTag(t) => x.tags.push(t.clone()),
        Mutation::RemoveTag(i) => {
            if !x.tags.is_empty() {
                let i = *i as usize % x.tags.len();
                let _ = x.tags.remove(i);
            }
        }
        Mutation::SwapTags(i, j) => {
            if x.tags.len() >= 2 {
                let i = *i as usize % x.tags.len();
                let j = *j as usize % x.tags.len();
                x.tags.swap(i, j);
            }
        }
        Mutation::AddEmptyTag(i) => {
            let i = *i as usize % (x.tags.len() + 1);
            x.tags.insert(i, vec![]);
        }
        Mutation::AddEmptyString(i) => {
            if !x.tags.is_empty() {
                let i = *i as usize % x.tags.len();
                x.tags[i].push(String::new());
            }
        }
        Mutation::EditContent(s) => x.content = s.clone(),
        Mutation::ForeignIdSig => {
            if let Some(o) = sign_model(secret, e.kind, e.created_at.wrapping_add(7), &e.tags, &e.content) {
                x.id = o.id;
                x.sig = o.sig;
            }
        }
    }
    x
}

fn mutation_strategy() -> BoxedStrategy<Mutation> {
    prop_oneof![
        3 => Just(Mutation::None),
        2 => any::<u8>().prop_map(Mutation::FlipId),
        2 => any::<u8>().prop_map(Mutation::FlipPubkey),
        2 => (prop::bool::weighted(0.25), 0u8..4, 0u8..4, prop_oneof![3 => (0u32..64).prop_map(|b| 1u64 << b), 1 => any::<u64>()])
            .prop_map(|(pubkey, a, b, mask)| Mutation::XorWords { pubkey, a, b, mask }),
        1 => (0u8..4, 0u8..4).prop_map(|(a, b)| Mutation::SwapIdWords(a, b)),
        2 => (0u16..512).prop_map(Mutation::FlipSig),
        1 => any::<bool>().prop_map(Mutation::CreatedAt),
        1 => any::<bool>().prop_map(Mutation::Kind),
        3 => (any::<u8>(), any::<u8>(), rich_string(4)).prop_map(|(i, j, s)| Mutation::EditString(i, j, s)),
        2 => any::<u8>().prop_map(Mutation::MoveString),
        1 => tag_strategy(2, 4).prop_map(Mutation::AddTag),
        1 => any::<u8>().prop_map(Mutation::RemoveTag),
        1 => (any::<u8>(), any::<u8>()).prop_map(|(i, j)| Mutation::SwapTags(i, j)),
        1 => any::<u8>().prop_map(Mutation::AddEmptyTag),
        1 => any::<u8>().prop_map(Mutation::AddEmptyString),
        2 => rich_string(6).prop_map(Mutation::EditContent),
        1 => Just(Mutation::ForeignIdSig),
    ]
    .boxed()
}

fn verify_res(e: &Event) -> Result<Result<(), String>, Fail> {
    guard("Event::verify", || e.verify().map_err(|x| x.to_string()))
}

impl Prop for C08 {
    type Case = Case;
    fn id(&self) -> &'static str {
        "C08"
    }
    fn rule(&self) -> String {
        "Cases: a generated 32-byte secret key, kind, created_at (boundaries and full range), tags and content from an escape-heavy alphabet (every C0 control, quote, backslash, slash, DEL, 2/3/4-byte scalars), and one mutation. Three directions: (i) OwnedEvent::sign_new output verifies, its id equals SHA-256 (harness implementation, FIPS 180-4) of serde_json's canonical array, and its signature verifies under secp256k1 0.29; (ii) an event whose id and BIP-340 signature the harness computes itself, assembled from parts and through a generated JSON rendering, verifies; (iii) each single-field mutation (bit of id/pubkey/sig, created_at+-1, kind+-1, a tag string edited, a string moved to the next tag, tag added/removed/swapped, empty tag/string added, content edited, id+sig of another event) makes verify() return Err. Enumerated first: each of the 128 ASCII characters as a one-character content and tag value. Non-trivial: content or a tag string has a control character, quote, backslash or multi-byte scalar; distinct by fingerprint.".into()
    }
    fn assumptions(&self) -> Vec<String> {
        vec![
            "serde_json::to_string of [0,pubkey,created_at,kind,tags,content] is the NIP-01 canonical serialisation (short escapes for \\b \\t \\n \\f \\r \\\" \\\\, \\u00xx lower-case for other C0 controls, everything else verbatim).".into(),
            "secp256k1 0.29 (a second copy of libsecp256k1 in the process) is the independent BIP-340 implementation.".into(),
            "The harness's SHA-256 passes four known-answer vectors at start-up.".into(),
        ]
    }
    fn cases(&self, tier: Tier) -> u32 {
        tier.pick(80_000, 400_000)
    }
    fn enumerated_subspaces(&self, _tier: Tier) -> Vec<String> {
        vec![
            "each ASCII character 0..=127 as one-character content and as a tag value".into(),
            "contents with a 2/3/4-byte character straddling byte offsets 4096, 8192, 16384, 32768, 65536".into(),
        ]
    }
    fn enumerate(&self, _tier: Tier) -> Vec<Case> {
        let mut big: Vec<Case> = Vec::new();
        for boundary in [4096usize, 8192, 16384, 32768, 65536] {
            for back in 1..=3usize {
                for ch in ["é", "†", "𝄞"] {
                    // the character's bytes lie across `boundary`
                    let mut content = "a".repeat(boundary - back.min(ch.len() - 1).max(1));
                    content.push_str(ch);
                    content.push_str("tail");
                    big.push(Case {
                        secret: hex(&[9u8; 32]),
                        kind: 1,
                        created_at: 1_700_000_001,
                        tags: vec![],
                        content,
                        mutation: Mutation::None,
                        plan: Plan::default(),
                    });
                }
            }
        }
        let small = (0u8..128)
            .map(|c| {
                let s = (c as char).to_string();
                Case {
                    secret: hex(&[7u8; 32]),
                    kind: 1,
                    created_at: 1_700_000_000,
                    tags: vec![vec!["t".into(), s.clone()], vec![s.clone()]],
                    content: s,
                    mutation: if c % 2 == 0 { Mutation::None } else { Mutation::EditContent("x".into()) },
                    plan: Plan::default(),
                }
            })
            .collect::<Vec<Case>>();
        big.extend(small);
        big
    }
    fn strategy(&self, tier: Tier) -> BoxedStrategy<Case> {
        let maxlen = tier.pick(16, 120);
        (
            any::<[u8; 32]>(),
            any_kind(),
            any_time(),
            prop_oneof![
                40 => prop::collection::vec(tag_strategy(3, maxlen), 0..5).boxed(),
                // a contact list: hundreds of p tags (tag section 30-60 KB, its JSON text up to ~64 KB)
                1 => (420usize..820, any::<u64>()).prop_map(|(n, salt)| {
                    (0..n)
                        .map(|i| {
                            let mut b = [0u8; 32];
                            b[..8].copy_from_slice(&(salt ^ (i as u64).wrapping_mul(0x9E37_79B9_7F4A_7C15)).to_le_bytes());
                            b[24..].copy_from_slice(&(i as u64).to_be_bytes());
                            vec!["p".to_string(), hex(&b)]
                        })
                        .collect::<Vec<_>>()
                }).boxed(),
                // few tags with very long strings
                1 => (prop::collection::vec((9_000usize..28_000, rich_string(6)), 1..3)).prop_map(|v| {
                    v.into_iter().map(|(n, seed)| {
                        let unit = if seed.is_empty() { "ab".to_string() } else { seed };
                        let mut s = String::new();
                        while s.len() < n { s.push_str(&unit); }
                        vec!["t".to_string(), s]
                    }).collect::<Vec<_>>()
                }).boxed(),
            ],
            rich_string(maxlen),
            mutation_strategy(),
            plan_strategy(7, 1, 2),
        )
            .prop_map(|(secret, kind, created_at, tags, content, mutation, plan)| Case {
                secret: hex(&secret),
                kind,
                created_at,
                tags,
                content,
                mutation,
                plan,
            })
            .boxed()
    }
    fn label_floors(&self) -> Vec<(&'static str, f64)> {
        vec![("mutated", 0.5), ("verifies", 0.1)]
    }
    fn check(&self, c: &Case) -> Outcome {
        let mut out = Outcome::default();
        if !crate::sha256::self_test() {
            out.fail("C08:harness-sha256-selftest", "harness SHA-256 self test failed");
            return out;
        }
        let secret = arr32(&c.secret);
        let special = |s: &str| s.chars().any(|ch| (ch as u32) < 0x20 || ch == '"' || ch == '\\' || (ch as u32) >= 0x7f);
        out.nontrivial = special(&c.content) || c.tags.iter().flatten().any(|s| special(s));
        if tags_size(&c.tags) > 60_000 {
            out.label("skipped:too-big");
            return out;
        }
        // harness-side reference event
        let Some(reference) = sign_model(&secret, c.kind, c.created_at, &c.tags, &c.content) else {
            out.label("skipped:invalid-secret");
            out.nontrivial = false;
            return out;
        };

        // (i) the library's signing constructor
        let kp28 = match pocket_types::secp256k1::Keypair::from_seckey_slice(pocket_types::secp256k1::SECP256K1, &secret) {
            Ok(k) => k,
            Err(_) => {
                out.label("skipped:invalid-secret");
                return out;
            }
        };
        let tags = match OwnedTags::new(&c.tags) {
            Ok(t) => t,
            Err(e) => {
                out.fail("C08:tags-construction", e.to_string());
                return out;
            }
        };
        let signed = guard("OwnedEvent::sign_new", || {
            OwnedEvent::sign_new(&kp28, Kind::from_u16(c.kind), &tags, Time::from_u64(c.created_at), c.content.as_bytes()).map_err(|e| e.to_string())
        });
        let signed = match signed {
            Ok(Ok(e)) => e,
            Ok(Err(e)) => {
                out.fail("C08:sign_new-failed", e);
                return out;
            }
            Err(f) => {
                out.fail(format!("C08:{}", f.key), f.detail);
                return out;
            }
        };
        match verify_res(&signed) {
            Ok(Ok(())) => {}
            Ok(Err(e)) => {
                out.fail("C08:sign_new-does-not-verify", format!("verify() of a sign_new event: {e}"));
                return out;
            }
            Err(f) => {
                out.fail(format!("C08:{}", f.key), f.detail);
                return out;
            }
        }
        if hex(signed.id().as_slice()) != reference.id {
            out.fail(
                "C08:sign_new-id-differs-from-canonical-hash",
                format!(
                    "sign_new id {} but SHA-256 of the canonical serialisation {} is {}",
                    hex(signed.id().as_slice()),
                    canonical(&reference.pubkey, c.created_at, c.kind, &c.tags, &c.content),
                    reference.id
                ),
            );
            return out;
        }
        {
            let sig = secp256k1::schnorr::Signature::from_slice(signed.sig().as_slice());
            let pk = secp256k1::XOnlyPublicKey::from_slice(signed.pubkey().as_slice());
            let ok = match (sig, pk) {
                (Ok(s), Ok(p)) => SECP256K1.verify_schnorr(&s, &Message::from_digest(arr32(&reference.id)), &p).is_ok(),
                _ => false,
            };
            if !ok {
                out.fail("C08:sign_new-signature-invalid", "signature of a sign_new event does not verify under secp256k1 0.29");
                return out;
            }
        }

        // real traffic contains invalid events too: verifying one first must not influence the next verification
        if let Ok(junk) = OwnedEvent::new(
            pocket_types::Id::from_bytes([0x42; 32]),
            Kind::from_u16(1),
            pocket_types::Pubkey::from_bytes(secret),
            pocket_types::Sig::from_bytes([0x24; 64]),
            &tags,
            Time::from_u64(c.created_at),
            b"caf\xC3",
        ) {
            let _ = guard("Event::verify(junk)", || junk.verify().is_ok());
        }

        // (ii) harness-signed event, from parts and through JSON
        let m = apply(&c.mutation, &reference, &secret);
        let mutated = m != reference;
        if mutated {
            out.label("mutated");
        }
        if tags_size(&m.tags) > 65_000 {
            return out;
        }
        let expect_ok = !mutated;
        let oe = match m.to_owned_event() {
            Ok(e) => e,
            Err(e) => {
                out.fail("C08:event-construction", e);
                return out;
            }
        };
        // an unknown member must really be unknown: one named like a NIP-01 member would be a second `content`, `id`, ...
        // and make the text denote another event (C01 deals with repeated members)
        let mut plan = c.plan.clone();
        plan.unknown.retain(|u| !EVENT_MEMBERS.contains(&u.name.as_str()));
        let text = render_event(&m, &plan);
        let mut buf = vec![0u8; m.binary_size() + 16];
        let via_json: Result<Result<Option<Result<(), String>>, String>, Fail> = guard("Event::from_json+verify", || {
            match Event::from_json(text.as_bytes(), &mut buf) {
                Ok((_, e)) => Ok(Some(e.verify().map_err(|x| x.to_string()))),
                Err(_) => Ok(None),
            }
        });
        // ... and neither must a valid one: the genuine event is verified immediately before its tampered copy (same
        // id and signature unless the mutation touches them), as when two clients relay the same event
        if mutated {
            if let Ok(genuine) = reference.to_owned_event() {
                match verify_res(&genuine) {
                    Ok(Ok(())) => {}
                    Ok(Err(e)) => {
                        out.fail("C08:valid-event-rejected:genuine-before-mutant", format!("a correctly hashed and signed event fails verify(): {e}"));
                        return out;
                    }
                    Err(f) => {
                        out.fail(format!("C08:{}", f.key), f.detail);
                        return out;
                    }
                }
            }
        }
        let mut results: Vec<(&str, Result<(), String>)> = Vec::new();
        match verify_res(&oe) {
            Ok(r) => results.push(("from-parts", r)),
            Err(f) => {
                out.fail(format!("C08:{}", f.key), f.detail);
                return out;
            }
        }
        match via_json {
            Ok(Ok(Some(r))) => results.push(("from-json", r)),
            Ok(Ok(None)) => out.label("json-rejected(C01)"),
            Ok(Err(e)) => {
                out.fail("C08:internal", e);
                return out;
            }
            Err(f) => {
                out.fail(format!("C08:{}", f.key), f.detail);
                return out;
            }
        }
        for (how, r) in results {
            match (expect_ok, r) {
                (true, Ok(())) => out.label("verifies"),
                (true, Err(e)) => {
                    out.fail(
                        format!("C08:valid-event-rejected:{how}"),
                        format!("a correctly hashed and signed event fails verify(): {e}; canonical={}", canonical(&m.pubkey, m.created_at, m.kind, &m.tags, &m.content)),
                    );
                    return out;
                }
                (false, Ok(())) => {
                    out.fail(
                        format!("C08:mutated-event-verifies:{}", mutation_name(&c.mutation)),
                        format!("verify() accepts an event after mutation {:?} ({how})", c.mutation),
                    );
                    return out;
                }
                (false, Err(_)) => out.label("mutation-rejected"),
            }
        }
        out
    }
}

fn mutation_name(m: &Mutation) -> &'static str {
    match m {
        Mutation::None => "none",
        Mutation::FlipId(_) => "id-bit",
        Mutation::XorWords { .. } => "two-words-same-xor",
        Mutation::SwapIdWords(..) => "id-words-swapped",
        Mutation::FlipPubkey(_) => "pubkey-bit",
        Mutation::FlipSig(_) => "sig-bit",
        Mutation::CreatedAt(_) => "created_at",
        Mutation::Kind(_) => "kind",
        Mutation::EditString(..) => "tag-string",
        Mutation::MoveString(_) => "move-string",
        Mutation::AddTag(_) => "add-tag",
        Mutation::RemoveTag(_) => "remove-tag",
        Mutation::SwapTags(..) => "swap-tags",
        Mutation::AddEmptyTag(_) => "add-empty-tag",
        Mutation::AddEmptyString(_) => "add-empty-string",
        Mutation::EditContent(_) => "content",
        Mutation::ForeignIdSig => "foreign-id-sig",
    }
}
