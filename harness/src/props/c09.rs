//! C09 At most one event per replaceable address; newer wins, older is refused.

use crate::dbx::*;
use crate::engine::*;
use crate::model::*;
use pocket_types::{Addr, Kind, Pubkey};
use proptest::prelude::*;
use serde::{Deserialize, Serialize};
use std::collections::{BTreeMap, BTreeSet};

#[derive(Clone, Debug, Serialize, Deserialize)]
pub enum Case {
    History { ops: Vec<Op> },
    /// classification of one kind value
    Kinds { from: u32, to: u32 },
}

pub struct C09;

type AddrKey = (u16, String, String);

fn holders(w: &World, r: &BTreeSet<usize>) -> BTreeMap<AddrKey, Vec<usize>> {
    let mut m: BTreeMap<AddrKey, Vec<usize>> = BTreeMap::new();
    for i in r {
        if let Some(a) = World::address_of(&w.events[*i]) {
            m.entry(a).or_default().push(*i);
        }
    }
    m
}

impl Prop for C09 {
    type Case = Case;
    fn id(&self) -> &'static str {
        "C09"
    }
    fn rule(&self) -> String {
        "Cases: histories of 0..30 (thorough 0..100) operations concentrated on few addresses: 2-3 authors x kinds straddling every range boundary (0,3,9999,10000,19999,20000,29999,30000,39999,40000) x a d pool of values that are empty, NUL-extensions of each other, share a 182-byte prefix, or exceed 182 bytes; timestamps with repeats; versions arriving older / newer / equal / resubmitted / after removal; a low rate of deletion requests, of events with a second d tag and of parameterised events without a d value. Oracle after every step: for every address the number of retrievable events whose own (author, kind[, first d value]) equals it is <= 1 (by id), find_replaceable_event / find_parameterized_replaceable_event return that event or nothing, and an author+kind(+#d) query returns no second one; per store of a replaceable event: strictly newer than every holder and Ok => the holders are gone, it is retrievable, nothing else changed; strictly older than a holder => refused as replaced (or deleted) and nothing changed; events of non-replaceable kinds are never displaced by a non-deletion store. Plus the exhaustive classification of all 65,536 kinds against the stated ranges. After every successful replacement the displaced holder must be absent from every filter shape its own fields satisfy (id; author; author+kind; time window; each one-character tag's first value alone / with author / with kind). Non-trivial: >= 3 versions submitted at one address in non-monotone time order, or two addresses in the history differing only in the d tail / beyond byte 182.".into()
    }
    fn assumptions(&self) -> Vec<String> {
        vec![
            "Parameterised events without a d value hold no address (excluded from the at-most-one count).".into(),
            "Equal timestamps at one address: either outcome is allowed, the at-most-one invariant still has to hold.".into(),
        ]
    }
    fn cases(&self, tier: Tier) -> u32 {
        tier.pick(4000, 60000)
    }
    fn enumerated_subspaces(&self, _tier: Tier) -> Vec<String> {
        vec!["all 65,536 kind values: is_replaceable / is_ephemeral / is_parameterized_replaceable against the NIP-01 ranges".into()]
    }
    fn enumerate(&self, _tier: Tier) -> Vec<Case> {
        (0..64u32).map(|i| Case::Kinds { from: i * 1024, to: (i + 1) * 1024 }).collect()
    }
    fn strategy(&self, tier: Tier) -> BoxedStrategy<Case> {
        let w = OpWeights {
            store: 10,
            resubmit: 2,
            version: 10,
            remove: 2,
            delete_req: 1,
            delete_own: 1,
            vanish: 0,
            reopen: 0,
            rebuild: 0,
            extra: 0,
            pressure: 0,
            mass_delete: 0,
            big: 0,
        };
        let cfg = EvCfg {
            authors: 3,
            kind_weights: [1, 4, 6, 1, 2],
            max_tags: 2,
            extreme_ids: true,
            tag_values: 0,
            tag_names: 0,
            narrow: false,
        };
        history(w, cfg, tier.pick(30, 100)).prop_map(|ops| Case::History { ops }).boxed()
    }
    fn label_floors(&self) -> Vec<(&'static str, f64)> {
        vec![("replacement", 0.3), ("refused-older", 0.2), ("near-addresses", 0.15)]
    }
    fn release_fraction(&self, tier: Tier) -> f64 {
        tier.pick(0.3, 0.1)
    }
    fn max_shrink_iters(&self) -> u32 {
        400
    }
    fn check(&self, c: &Case) -> Outcome {
        let mut out = Outcome::default();
        let ops = match c {
            Case::Kinds { from, to } => {
                out.nontrivial = true;
                for k in *from..*to {
                    let k = k as u16;
                    let kk = Kind::from_u16(k);
                    let rep = k == 0 || k == 3 || (10000..20000).contains(&k);
                    let eph = (20000..30000).contains(&k);
                    let par = (30000..40000).contains(&k);
                    if kk.is_replaceable() != rep || kk.is_ephemeral() != eph || kk.is_parameterized_replaceable() != par {
                        out.fail("C09:kind-classification", format!("kind {k}: replaceable={} ephemeral={} parameterised={}", kk.is_replaceable(), kk.is_ephemeral(), kk.is_parameterized_replaceable()));
                        return out;
                    }
                }
                return out;
            }
            Case::History { ops } => ops,
        };
        let mut w = match World::new(0) {
            Ok(w) => w,
            Err(f) => {
                out.fail(format!("C09:{}", f.key), f.detail);
                return out;
            }
        };
        let mut versions: BTreeMap<AddrKey, Vec<u64>> = BTreeMap::new();
        for (stepno, op) in ops.iter().enumerate() {
            let Some(conc) = w.concretise(op) else { continue };
            let r_before = match w.retrievable() {
                Ok(r) => r,
                Err(e) => {
                    out.fail(format!("C09:observe-error:{e}"), format!("step {stepno}"));
                    return out;
                }
            };
            let step = w.apply(&conc);
            if let Res::Panic(k) = &step.res {
                out.fail(format!("C09:{k}"), format!("step {stepno} {:?}", op));
                return out;
            }
            let r_after = match w.retrievable() {
                Ok(r) => r,
                Err(e) => {
                    out.fail(format!("C09:observe-error:{e}"), format!("step {stepno}"));
                    return out;
                }
            };
            if let StepKind::Store(i) = &step.kind {
                let e = w.events[*i].clone();
                let k = Kind::from_u16(e.kind);
                if let Some(addr) = World::address_of(&e) {
                    let v = versions.entry(addr.clone()).or_default();
                    v.push(e.created_at);
                    if v.len() >= 3 && v.windows(2).any(|x| x[0] > x[1]) && v.windows(2).any(|x| x[0] < x[1]) {
                        out.nontrivial = true;
                        out.label("non-monotone-versions");
                    }
                    let hs: Vec<usize> = r_before.iter().copied().filter(|j| *j != *i && World::address_of(&w.events[*j]).as_ref() == Some(&addr)).collect();
                    let newer_than_all = hs.iter().all(|j| e.created_at > w.events[*j].created_at);
                    let older_than_some = hs.iter().any(|j| e.created_at < w.events[*j].created_at);
                    let already = r_before.contains(i);
                    if !already && !hs.is_empty() && newer_than_all {
                        match &step.res {
                            Res::Ok(_) => {
                                out.label("replacement");
                                let mut expect: BTreeSet<usize> = r_before.iter().copied().filter(|j| !hs.contains(j)).collect();
                                let _ = expect.insert(*i);
                                if r_after != expect {
                                    let lost: Vec<String> = expect.difference(&r_after).map(|j| w.events[*j].short()).collect();
                                    let kept: Vec<String> = r_after.difference(&expect).map(|j| w.events[*j].short()).collect();
                                    out.fail(
                                        format!("C09:replacement-effects:{}", if !lost.is_empty() { "displaced-other-or-lost-new" } else { "old-holder-kept" }),
                                        format!("step {stepno}: storing {} (newer than the holder): unexpectedly gone {:?}; unexpectedly still there {:?}", e.short(), lost, kept),
                                    );
                                    return out;
                                }
                                // "by any lookup or query": the displaced holder is gone from every filter shape its own fields satisfy
                                for j in &hs {
                                    let old = w.events[*j].clone();
                                    for (shape, f) in crate::props::c17::derived_filters(&old) {
                                        match w.query(&f) {
                                            Ok(ids) => {
                                                if ids.contains(&old.id) {
                                                    out.fail(
                                                        format!("C09:displaced-holder-still-returned-by:{shape}"),
                                                        format!("step {stepno}: {} was displaced by {} but the {shape} query {:?} still returns it", old.short(), e.short(), f),
                                                    );
                                                    return out;
                                                }
                                            }
                                            Err(x) => {
                                                out.fail(format!("C09:query-error:{x}"), format!("step {stepno}"));
                                                return out;
                                            }
                                        }
                                    }
                                }
                            }
                            Res::Deleted => {}
                            other => {
                                out.fail(format!("C09:newer-version-refused:{}", other.class()), format!("step {stepno}: {} is strictly newer than the holder(s) but the store returned {:?}", e.short(), other));
                                return out;
                            }
                        }
                    }
                    if !already && older_than_some {
                        match &step.res {
                            Res::Replaced | Res::Deleted => {
                                out.label("refused-older");
                                if r_after != r_before {
                                    out.fail("C09:refused-store-changed-state", format!("step {stepno}: {} refused as {:?} but the retrievable set changed", e.short(), step.res));
                                    return out;
                                }
                            }
                            other => {
                                out.fail(format!("C09:older-version-accepted:{}", other.class()), format!("step {stepno}: {} is strictly older than a holder of its address but the store returned {:?}", e.short(), other));
                                return out;
                            }
                        }
                    }
                    if !already && hs.is_empty() && step.res.is_ok() && e.kind != 5 {
                        // first event at the address: nothing else may change
                        let mut expect = r_before.clone();
                        let _ = expect.insert(*i);
                        if r_after != expect {
                            let lost: Vec<String> = expect.difference(&r_after).map(|j| w.events[*j].short()).collect();
                            out.fail("C09:store-at-free-address-displaced-another", format!("step {stepno}: storing {} at a free address made {:?} unretrievable", e.short(), lost));
                            return out;
                        }
                    }
                } else if e.kind != 5 && !kind_is_ephemeral(e.kind) && step.res.is_ok() {
                    let mut expect = r_before.clone();
                    let _ = expect.insert(*i);
                    if r_after != expect {
                        out.fail("C09:regular-store-changed-others", format!("step {stepno}: storing the regular event {} changed the retrievability of other events", e.short()));
                        return out;
                    }
                }
                // ... and a deletion request reaches an event of a non-replaceable kind only by naming its id
                if e.kind == 5 {
                    for j in r_before.difference(&r_after) {
                        let gone = &w.events[*j];
                        if World::address_of(gone).is_none() && !e.tags.iter().any(|t| t.len() >= 2 && t[0] == "e" && t[1].eq_ignore_ascii_case(&gone.id)) {
                            out.fail(
                                "C09:non-replaceable-displaced-by-deletion-request",
                                format!("step {stepno}: the deletion request {} (tags {:?}) made {} unretrievable, which has no replaceable address and is not named by id", e.short(), e.tags.iter().take(4).collect::<Vec<_>>(), gone.short()),
                            );
                            return out;
                        }
                    }
                }
                // non-replaceable kinds are never displaced by a (non-deletion) store
                if e.kind != 5 {
                    for j in r_before.difference(&r_after) {
                        if World::address_of(&w.events[*j]).is_none() {
                            out.fail("C09:non-replaceable-displaced", format!("step {stepno}: storing {} displaced {} which has no replaceable address", e.short(), w.events[*j].short()));
                            return out;
                        }
                    }
                }
            }
            // invariant: at most one retrievable event per address, by every lookup
            let hm = holders(&w, &r_after);
            let all_addrs: BTreeSet<AddrKey> = w.events.iter().filter_map(World::address_of).collect();
            let keys: Vec<&AddrKey> = all_addrs.iter().collect();
            for (i, a) in keys.iter().enumerate() {
                for b in keys.iter().skip(i + 1) {
                    if a.0 == b.0 && a.1 == b.1 && a.2 != b.2 {
                        let (x, y) = (a.2.as_bytes(), b.2.as_bytes());
                        let common = x.iter().zip(y.iter()).take_while(|(p, q)| p == q).count();
                        if common >= 182 || (common == x.len().min(y.len()) && x.iter().skip(common).all(|c| *c == 0) && y.iter().skip(common).all(|c| *c == 0)) {
                            out.nontrivial = true;
                            out.label("near-addresses");
                        }
                    }
                }
            }
            for (addr, hs) in &hm {
                if hs.len() > 1 {
                    out.fail(
                        "C09:two-events-at-one-address",
                        format!("step {stepno}: address {}:{}..:{:?} holds {}", addr.0, &addr.1[..6], crate::engine::shorten(&serde_json::Value::String(addr.2.clone()), 20), hs.iter().map(|j| w.events[*j].short()).collect::<Vec<_>>().join(" and ")),
                    );
                    return out;
                }
                let holder = &w.events[hs[0]];
                let st = w.st();
                let pa = Addr { kind: Kind::from_u16(addr.0), author: Pubkey::from_bytes(arr32(&addr.1)), d: addr.2.as_bytes().to_vec() };
                let found = guard("find_*replaceable_event", || {
                    if kind_is_replaceable(addr.0) {
                        st.find_replaceable_event(pa.author, pa.kind).map(|o| o.map(|e| hex(e.id().as_slice())))
                    } else {
                        st.find_parameterized_replaceable_event(&pa).map(|o| o.map(|e| hex(e.id().as_slice())))
                    }
                });
                match found {
                    Ok(Ok(Some(id))) => {
                        if id != holder.id {
                            out.fail("C09:lookup-returns-other-event", format!("step {stepno}: address lookup for {} returns {} ", holder.short(), &id[..8]));
                            return out;
                        }
                    }
                    Ok(Ok(None)) => {
                        out.fail("C09:lookup-misses-holder", format!("step {stepno}: address lookup does not find {}", holder.short()));
                        return out;
                    }
                    Ok(Err(e)) => {
                        out.fail("C09:lookup-error", e.to_string());
                        return out;
                    }
                    Err(f) => {
                        out.fail(format!("C09:{}", f.key), f.detail);
                        return out;
                    }
                }
                // author+kind(+#d) query returns exactly the holder among events of that address
                let mut f = MFilter { authors: vec![addr.1.clone()], kinds: vec![addr.0], ..Default::default() };
                if kind_is_param_replaceable(addr.0) {
                    f.tags = vec![("d".to_string(), vec![addr.2.clone()])];
                }
                match w.query(&f) {
                    Ok(ids) => {
                        let at_addr: Vec<&String> = ids.iter().filter(|id| w.by_id.get(*id).map(|j| World::address_of(&w.events[*j]).as_ref() == Some(addr)).unwrap_or(false)).collect();
                        if at_addr.len() != 1 || *at_addr[0] != holder.id {
                            out.fail("C09:query-disagrees-with-holder", format!("step {stepno}: author+kind(+#d) query for the address of {} returns {} events of that address", holder.short(), at_addr.len()));
                            return out;
                        }
                    }
                    Err(x) => {
                        out.fail(format!("C09:query-error:{x}"), format!("step {stepno}"));
                        return out;
                    }
                }
            }
        }
        out
    }
}
