//! C19 Constructors yield faithful well-formed values or an error, never truncation.

use crate::engine::*;
use crate::jsonx::*;
use crate::model::*;
use pocket_types::{Event, Filter, Id, Kind, OwnedEvent, OwnedFilter, OwnedTags, Pubkey, Sig, Tags, Time};
use proptest::prelude::*;
use serde::{Deserialize, Serialize};

#[derive(Clone, Debug, Serialize, Deserialize)]
pub enum Shape {
    /// one tag with one string of `len` bytes
    OneBig { len: u32 },
    /// `n` empty tags
    ManyEmptyTags { n: u32 },
    /// `n_tags` tags of `per_tag` strings of `len` bytes
    Grid { n_tags: u32, per_tag: u32, len: u32 },
    /// a tag section of exactly `total` bytes (when total >= 12), built from 1..3 tags
    TotalExactly { total: u32, split: u8 },
    Explicit(Vec<Vec<String>>),
    /// one tag holding one string of `len` bytes, followed by `n_empty` tags without strings
    /// (the size limit is crossed by tags that carry no string at all)
    BigThenEmpty { len: u32, n_empty: u8 },
}

#[derive(Clone, Copy, Debug, Serialize, Deserialize, PartialEq, Eq)]
pub enum Via {
    TagsFromParts,
    OwnedTagsNew,
    TagsJson,
    EventJson,
    OwnedEventNew,
    SignNew,
    FilterTagsParts,
    FilterTagsJson,
}

#[derive(Clone, Debug, Serialize, Deserialize)]
pub enum Case {
    Tags {
        shape: Shape,
        via: Via,
        /// output buffer = needed + delta (clamped at 0); i32::MIN = zero-length buffer
        delta: i32,
        content_len: u32,
    },
    FilterCounts {
        ids: u32,
        authors: u32,
        kinds: u32,
        via_json: bool,
        delta: i32,
    },
}

pub struct C19;

fn s_of(len: usize, salt: usize) -> String {
    let c = (b'a' + (salt % 26) as u8) as char;
    std::iter::repeat(c).take(len).collect()
}

pub fn build(shape: &Shape) -> Vec<Vec<String>> {
    match shape {
        Shape::OneBig { len } => vec![vec![s_of(*len as usize, 0)]],
        Shape::ManyEmptyTags { n } => vec![Vec::new(); *n as usize],
        Shape::Grid { n_tags, per_tag, len } => (0..*n_tags as usize)
            .map(|i| (0..*per_tag as usize).map(|j| s_of(*len as usize, i * 7 + j)).collect())
            .collect(),
        Shape::TotalExactly { total, split } => {
            // header 4 + per tag (2 offset + 2 count) + per string (2 + len)
            let total = *total as usize;
            let ntags = 1 + (*split as usize % 3);
            let fixed = 4 + ntags * 4 + ntags * 2; // one string per tag
            if total < fixed {
                return vec![vec![s_of(0, 0)]];
            }
            let payload = total - fixed;
            let mut tags = Vec::new();
            let mut left = payload;
            for i in 0..ntags {
                let l = if i == ntags - 1 { left } else { left / 2 };
                left -= l;
                tags.push(vec![s_of(l, i)]);
            }
            tags
        }
        Shape::Explicit(t) => t.clone(),
        Shape::BigThenEmpty { len, n_empty } => {
            let mut v = vec![vec![s_of(*len as usize, 1)]];
            for _ in 0..*n_empty {
                v.push(Vec::new());
            }
            v
        }
    }
}

fn tags_to_vecs(t: &Tags) -> Vec<Vec<Vec<u8>>> {
    t.iter().map(|x| x.map(|s| s.to_vec()).collect()).collect()
}

fn faithful(got: &Tags, parts: &[Vec<String>]) -> Result<(), String> {
    let exp: Vec<Vec<Vec<u8>>> = parts.iter().map(|t| t.iter().map(|s| s.as_bytes().to_vec()).collect()).collect();
    if got.count() != parts.len() {
        return Err(format!("count() = {} but {} tags were given", got.count(), parts.len()));
    }
    let g = tags_to_vecs(got);
    if g.len() != exp.len() {
        return Err(format!("iter() yields {} tags but {} were given", g.len(), exp.len()));
    }
    for (i, (a, b)) in g.iter().zip(exp.iter()).enumerate() {
        if a.len() != b.len() {
            return Err(format!("tag {i}: {} strings but {} were given", a.len(), b.len()));
        }
        for (j, (x, y)) in a.iter().zip(b.iter()).enumerate() {
            if x != y {
                return Err(format!("tag {i} string {j}: length {} but {} was given (or bytes differ)", x.len(), y.len()));
            }
        }
    }
    // spot-check get_string on first / last
    if let Some(last) = parts.len().checked_sub(1) {
        for i in [0, last] {
            for (j, s) in parts[i].iter().enumerate().take(3) {
                if got.get_string(i, j) != Some(s.as_bytes()) {
                    return Err(format!("get_string({i},{j}) does not return the given string"));
                }
            }
        }
    }
    if got.as_bytes().len() != tags_size(parts) {
        return Err(format!("binary length {} but the parts need {}", got.as_bytes().len(), tags_size(parts)));
    }
    Ok(())
}

enum R {
    Err,
    Ok,
    Bad(String),
}

fn with_buf<T>(len: usize, f: impl FnOnce(&mut [u8]) -> T) -> (T, bool) {
    const CANARY: usize = 32;
    let mut backing = vec![0x5Au8; len + CANARY];
    for b in backing[len..].iter_mut() {
        *b = 0xA5;
    }
    let r = {
        let (buf, _) = backing.split_at_mut(len);
        f(buf)
    };
    (r, backing[len..].iter().all(|b| *b == 0xA5))
}

fn buflen(needed: usize, delta: i32) -> usize {
    if delta == i32::MIN {
        0
    } else {
        (needed as i64 + delta as i64).max(0) as usize
    }
}

impl Prop for C19 {
    type Case = Case;
    fn id(&self) -> &'static str {
        "C19"
    }
    fn rule(&self) -> String {
        "Cases: tag part lists constructed to sit on both sides of every u16 boundary (one string of 65,535+-3 or 70,000 bytes; 65,534..65,536 / 70,000 empty tags; grids; tag sections of exactly 65,535-16..65,535+16 bytes; small random lists), pushed through Tags::from_parts, OwnedTags::new, Tags::from_json, Event::from_json, OwnedEvent::new, OwnedEvent::sign_new, Filter::from_parts and Filter::from_json, with output buffers of needed-8..needed+8 bytes or 0 bytes; and filters with 65,534 / 65,535 / 65,536 / 70,000 ids, authors or kinds from parts and from JSON. Oracle: the result is an error, or a value whose accessors reproduce the given parts exactly; anything too large for the u16 length fields must be an error; a buffer shorter than needed must give an error (no panic, canary intact). Non-trivial: a size within 16 of a u16 boundary or above it, or a buffer shorter than needed.".into()
    }
    fn assumptions(&self) -> Vec<String> {
        vec!["'Needed' buffer size is the size of the binary value (what output_size_needed reports for the parts).".into()]
    }
    fn cases(&self, tier: Tier) -> u32 {
        tier.pick(30_000, 150_000)
    }
    fn workers(&self, _tier: Tier) -> usize {
        16
    }
    fn enumerated_subspaces(&self, _tier: Tier) -> Vec<String> {
        vec![
            "tag section totals 65,519..=65,551 x 8 construction paths".into(),
            "single string lengths 65,520..=65,540 and 70,000 x 8 paths".into(),
            "tag counts {16382, 16383, 16384, 32767, 65534, 65535, 65536, 70000} empty tags x 8 paths".into(),
            "one string of 65,470..=65,530 bytes followed by 1..20 string-less tags x 8 paths (limit crossed by tags without strings)".into(),
            "ids/authors/kinds counts {2045..2048 (64 KiB of ids), 65534, 65535, 65536, 70000} from parts and from JSON".into(),
            "output buffers needed-8..=needed+8 and 0 for a small event, tags and filter".into(),
        ]
    }
    fn enumerate(&self, _tier: Tier) -> Vec<Case> {
        let vias = [
            Via::TagsFromParts,
            Via::OwnedTagsNew,
            Via::TagsJson,
            Via::EventJson,
            Via::OwnedEventNew,
            Via::SignNew,
            Via::FilterTagsParts,
            Via::FilterTagsJson,
        ];
        let mut v = Vec::new();
        for via in vias {
            for total in 65_519u32..=65_551 {
                v.push(Case::Tags { shape: Shape::TotalExactly { total, split: (total % 3) as u8 }, via, delta: 0, content_len: 3 });
            }
            for len in (65_520u32..=65_540).chain([70_000, 131_072 + 5]) {
                v.push(Case::Tags { shape: Shape::OneBig { len }, via, delta: 0, content_len: 0 });
            }
            for len in (65_470u32..=65_530).step_by(3) {
                for n_empty in [1u8, 2, 3, 5, 9, 20] {
                    v.push(Case::Tags { shape: Shape::BigThenEmpty { len, n_empty }, via, delta: 0, content_len: 0 });
                }
            }
            for n in [16_382u32, 16_383, 16_384, 32_765, 32_766, 32_767, 65_534, 65_535, 65_536, 70_000] {
                v.push(Case::Tags { shape: Shape::ManyEmptyTags { n }, via, delta: 0, content_len: 0 });
            }
            for delta in (-8..=8).chain([i32::MIN, -100, -150]) {
                v.push(Case::Tags {
                    shape: Shape::Explicit(vec![vec!["e".into(), "abc".into()], vec![], vec!["t".into(), "é\"x".into(), "".into()]]),
                    via,
                    delta,
                    content_len: 9,
                });
            }
        }
        for n in [2045u32, 2046, 2047, 2048, 65_534, 65_535, 65_536, 70_000] {
            for via_json in [false, true] {
                v.push(Case::FilterCounts { ids: n, authors: 0, kinds: 0, via_json, delta: 0 });
                v.push(Case::FilterCounts { ids: 0, authors: n, kinds: 0, via_json, delta: 0 });
                v.push(Case::FilterCounts { ids: 0, authors: 0, kinds: n, via_json, delta: 0 });
            }
        }
        for delta in (-8..=8).chain([i32::MIN, -40, -64]) {
            for via_json in [false, true] {
                v.push(Case::FilterCounts { ids: 2, authors: 1, kinds: 3, via_json, delta });
            }
        }
        v
    }
    fn strategy(&self, _tier: Tier) -> BoxedStrategy<Case> {
        let via = prop::sample::select(vec![
            Via::TagsFromParts,
            Via::OwnedTagsNew,
            Via::TagsJson,
            Via::EventJson,
            Via::OwnedEventNew,
            Via::SignNew,
            Via::FilterTagsParts,
            Via::FilterTagsJson,
        ]);
        let shape = prop_oneof![
            2 => (65_500u32..65_580).prop_map(|len| Shape::OneBig { len }),
            1 => (0u32..70_000).prop_map(|len| Shape::OneBig { len }),
            2 => prop_oneof![16_370u32..16_400, 32_750u32..32_790, 65_520u32..65_560].prop_map(|n| Shape::ManyEmptyTags { n }),
            2 => (1u32..200, 0u32..8, 0u32..400).prop_map(|(n_tags, per_tag, len)| Shape::Grid { n_tags, per_tag, len }),
            3 => (65_400u32..65_700, any::<u8>()).prop_map(|(total, split)| Shape::TotalExactly { total, split }),
            2 => (65_400u32..65_540, 0u8..30).prop_map(|(len, n_empty)| Shape::BigThenEmpty { len, n_empty }),
            4 => prop::collection::vec(tag_strategy(4, 20), 0..6).prop_map(Shape::Explicit),
        ];
        let delta = prop_oneof![4 => Just(0i32), 4 => -8i32..=8, 1 => Just(i32::MIN), 1 => -300i32..0, 1 => Just(4096i32)];
        prop_oneof![
            8 => (shape, via, delta.clone(), prop_oneof![Just(0u32), 0u32..40]).prop_map(|(shape, via, delta, content_len)| Case::Tags { shape, via, delta, content_len }),
            1 => (prop_oneof![0u32..4, 2040u32..2052], 0u32..4, 0u32..6, any::<bool>(), delta).prop_map(|(ids, authors, kinds, via_json, delta)| Case::FilterCounts { ids, authors, kinds, via_json, delta }),
        ]
        .boxed()
    }
    fn check(&self, c: &Case) -> Outcome {
        let mut out = Outcome::default();
        match c {
            Case::Tags { shape, via, delta, content_len } => {
                let parts = build(shape);
                let tsize = tags_size(&parts);
                let oversized = tsize > 65_535;
                let near = (tsize as i64 - 65_535).abs() <= 16 || oversized;
                out.label(format!("via:{:?}", via));
                if oversized {
                    out.label("oversized");
                }
                // content with characters that need escaping in JSON (must be stored unescaped)
                let content: String = s_of(*content_len as usize, 3)
                    .chars()
                    .enumerate()
                    .map(|(i, ch)| match i % 7 {
                        2 => '"',
                        4 => '\n',
                        5 => '\\',
                        _ => ch,
                    })
                    .collect();
                let (needed, r): (usize, Result<(R, bool), Fail>) = match via {
                    Via::TagsFromParts => {
                        let needed = tsize;
                        let bl = buflen(needed, *delta);
                        (needed, guard("Tags::from_parts", || {
                            with_buf(bl, |buf| match Tags::from_parts(&parts, buf) {
                                Ok(t) => match faithful(t, &parts) { Ok(()) => R::Ok, Err(e) => R::Bad(e) },
                                Err(_) => R::Err,
                            })
                        }))
                    }
                    Via::OwnedTagsNew => (0, guard("OwnedTags::new", || {
                        (match OwnedTags::new(&parts) {
                            Ok(t) => match faithful(&t, &parts) { Ok(()) => R::Ok, Err(e) => R::Bad(e) },
                            Err(_) => R::Err,
                        }, true)
                    })),
                    Via::TagsJson => {
                        let needed = tsize;
                        let bl = buflen(needed, *delta);
                        // odd buffer deltas: every BMP character spelled \uXXXX (what ASCII-only encoders emit)
                        let plan = if delta.rem_euclid(2) == 1 { Plan { spell: Choices::new(vec![6]), ..Plan::default() } } else { Plan::default() };
                        let text = render_tags(&parts, &plan.cur());
                        (needed, guard("Tags::from_json", || {
                            with_buf(bl, |buf| match Tags::from_json(text.as_bytes(), buf) {
                                Ok((n, t)) => {
                                    if n != text.len() { R::Bad(format!("consumed {} of {}", n, text.len())) }
                                    else { match faithful(t, &parts) { Ok(()) => R::Ok, Err(e) => R::Bad(e) } }
                                }
                                Err(_) => R::Err,
                            })
                        }))
                    }
                    Via::EventJson => {
                        let needed = 144 + tsize + 4 + content.len();
                        let bl = buflen(needed, *delta);
                        let mut ev = crate::props::c01::fixed_event();
                        ev.tags = parts.clone();
                        ev.content = content.clone();
                        let plan = if delta.rem_euclid(2) == 1 { Plan { spell: Choices::new(vec![6]), ..Plan::default() } } else { Plan::default() };
                        let text = render_event(&ev, &plan);
                        (needed, guard("Event::from_json", || {
                            with_buf(bl, |buf| match Event::from_json(text.as_bytes(), buf) {
                                Ok((_, e)) => match e.tags() {
                                    Ok(t) => match faithful(t, &parts) {
                                        Ok(()) => if e.content() == content.as_bytes() && e.len() == needed { R::Ok } else { R::Bad("content or length not reproduced".into()) },
                                        Err(x) => R::Bad(x),
                                    },
                                    Err(x) => R::Bad(format!("tags() fails: {x}")),
                                },
                                Err(_) => R::Err,
                            })
                        }))
                    }
                    Via::OwnedEventNew | Via::SignNew => {
                        // the tags value itself must first be constructible
                        let tags = match guard("OwnedTags::new", || OwnedTags::new(&parts)) {
                            Ok(Ok(t)) => t,
                            Ok(Err(_)) => {
                                out.label("tags-refused");
                                out.nontrivial = near;
                                return out;
                            }
                            Err(f) => {
                                out.fail(format!("C19:{}", f.key), f.detail);
                                return out;
                            }
                        };
                        if faithful(&tags, &parts).is_err() {
                            // reported by the OwnedTagsNew path; do not duplicate under another key
                            out.label("tags-unfaithful(see OwnedTagsNew)");
                            if oversized {
                                out.fail("C19:oversized-accepted:OwnedTagsNew", format!("tag section of {} bytes accepted by OwnedTags::new", tsize));
                            }
                            return out;
                        }
                        let sign = *via == Via::SignNew;
                        (0, guard(if sign { "OwnedEvent::sign_new" } else { "OwnedEvent::new" }, || {
                            let r = if sign {
                                let kp = pocket_types::secp256k1::Keypair::from_seckey_slice(pocket_types::secp256k1::SECP256K1, &[9u8; 32]).unwrap();
                                OwnedEvent::sign_new(&kp, Kind::from_u16(1), &tags, Time::from_u64(77), content.as_bytes())
                            } else {
                                OwnedEvent::new(Id::from_bytes([1; 32]), Kind::from_u16(1), Pubkey::from_bytes([2; 32]), Sig::from_bytes([3; 64]), &tags, Time::from_u64(77), content.as_bytes())
                            };
                            (match r {
                                Ok(e) => match e.tags() {
                                    Ok(t) => match faithful(t, &parts) {
                                        Ok(()) => if e.content() == content.as_bytes() && e.created_at().as_u64() == 77 && e.kind().as_u16() == 1 { R::Ok } else { R::Bad("fields not reproduced".into()) },
                                        Err(x) => R::Bad(x),
                                    },
                                    Err(x) => R::Bad(format!("tags() fails: {x}")),
                                },
                                Err(_) => R::Err,
                            }, true)
                        }))
                    }
                    Via::FilterTagsParts => {
                        let tags = match guard("OwnedTags::new", || OwnedTags::new(&parts)) {
                            Ok(Ok(t)) => t,
                            _ => {
                                out.label("tags-refused");
                                out.nontrivial = near;
                                return out;
                            }
                        };
                        if faithful(&tags, &parts).is_err() {
                            out.label("tags-unfaithful(see OwnedTagsNew)");
                            return out;
                        }
                        let needed = 32 + 32 + tsize;
                        let bl = buflen(needed, *delta);
                        (needed, guard("Filter::from_parts", || {
                            with_buf(bl, |buf| match Filter::from_parts(&[Id::from_bytes([1; 32])], &[], &[], &tags, None, Some(Time::from_u64(5)), Some(7), buf) {
                                Ok(f) => match f.tags() {
                                    Ok(t) => match faithful(t, &parts) {
                                        Ok(()) => if f.limit() == 7 && f.until().as_u64() == 5 && f.num_ids() == 1 { R::Ok } else { R::Bad("fields not reproduced".into()) },
                                        Err(x) => R::Bad(x),
                                    },
                                    Err(x) => R::Bad(format!("tags() fails: {x}")),
                                },
                                Err(_) => R::Err,
                            })
                        }))
                    }
                    Via::FilterTagsJson => {
                        // filter tags in JSON: one '#x' member per tag; only shapes whose tags all have a one-letter name fit
                        let fparts: Vec<Vec<String>> = parts
                            .iter()
                            .enumerate()
                            .take(52)
                            .map(|(i, t)| {
                                let mut v = vec![(crate::props::c07::LETTERS[i] as char).to_string()];
                                v.extend(t.iter().cloned());
                                v
                            })
                            .collect();
                        let ftsize = tags_size(&fparts);
                        let needed = 32 + ftsize;
                        let bl = buflen(needed, *delta);
                        let f = MFilter { tags: fparts.iter().map(|t| (t[0].clone(), t[1..].to_vec())).collect(), ..Default::default() };
                        let text = render_filter(&f, &Plan::default());
                        let over = ftsize > 65_535;
                        let rr = guard("Filter::from_json", || {
                            with_buf(bl, |buf| match Filter::from_json(text.as_bytes(), buf) {
                                Ok((_, _, f)) => match f.tags() {
                                    Ok(t) => match faithful(t, &fparts) { Ok(()) => R::Ok, Err(x) => R::Bad(x) },
                                    Err(x) => R::Bad(format!("tags() fails: {x}")),
                                },
                                Err(_) => R::Err,
                            })
                        });
                        // evaluate here with this path's own size
                        out.nontrivial = (ftsize as i64 - 65_535).abs() <= 16 || over || bl < needed;
                        match rr {
                            Ok((R::Err, canary)) => {
                                out.label("err");
                                if !canary { out.fail("C19:wrote-past-buffer:FilterTagsJson", "canary modified"); }
                            }
                            Ok((R::Ok, canary)) => {
                                out.label("faithful");
                                if !canary { out.fail("C19:wrote-past-buffer:FilterTagsJson", "canary modified"); }
                                else if over { out.fail("C19:oversized-accepted:FilterTagsJson", format!("filter tag section of {ftsize} bytes accepted")); }
                                else if bl < needed { out.fail("C19:short-buffer-accepted:FilterTagsJson", format!("buffer {bl} < needed {needed} yet Ok")); }
                            }
                            Ok((R::Bad(e), _)) => out.fail(format!("C19:unfaithful:FilterTagsJson:{}", if over { "oversized" } else { "in-range" }), e),
                            Err(f) => out.fail(format!("C19:{}", f.key), f.detail),
                        }
                        return out;
                    }
                };
                let bl = if needed == 0 { usize::MAX } else { buflen(needed, *delta) };
                let short = bl < needed;
                if short {
                    out.label("short-buffer");
                }
                out.nontrivial = near || short;
                match r {
                    Ok((R::Err, canary)) => {
                        out.label("err");
                        if !canary {
                            out.fail(format!("C19:wrote-past-buffer:{:?}", via), "canary after the output buffer was modified");
                        } else if !oversized && !short && !matches!(via, Via::EventJson | Via::TagsJson) {
                            // representable parts and an adequate buffer: refusing is allowed by the property ("either fails or ..."),
                            // recorded for the evidence
                            out.label("refused-representable");
                        }
                    }
                    Ok((R::Ok, canary)) => {
                        out.label("faithful");
                        if !canary {
                            out.fail(format!("C19:wrote-past-buffer:{:?}", via), "canary after the output buffer was modified");
                        } else if oversized {
                            out.fail(format!("C19:oversized-accepted:{:?}", via), format!("tag section of {tsize} bytes accepted"));
                        } else if short {
                            out.fail(format!("C19:short-buffer-accepted:{:?}", via), format!("buffer {bl} < needed {needed} yet Ok"));
                        }
                    }
                    Ok((R::Bad(e), _)) => out.fail(
                        format!("C19:unfaithful:{:?}:{}", via, if oversized { "oversized" } else { "in-range" }),
                        format!("{e} (tag section {tsize} bytes, {} tags)", parts.len()),
                    ),
                    Err(f) => out.fail(format!("C19:{}", f.key), f.detail),
                }
            }
            Case::FilterCounts { ids, authors, kinds, via_json, delta } => {
                let idv: Vec<[u8; 32]> = (0..*ids).map(|i| { let mut a = [0u8; 32]; a[..4].copy_from_slice(&i.to_be_bytes()); a[31] = 1; a }).collect();
                let auv: Vec<[u8; 32]> = (0..*authors).map(|i| { let mut a = [0u8; 32]; a[..4].copy_from_slice(&i.to_be_bytes()); a[31] = 2; a }).collect();
                let kv: Vec<u16> = (0..*kinds).map(|i| (i % 65_536) as u16).collect();
                let oversized = *ids > 65_535 || *authors > 65_535 || *kinds > 65_535;
                let near = [*ids, *authors, *kinds].iter().any(|n| (*n as i64 - 65_535).abs() <= 16 || *n > 65_535);
                let needed = 32 + 32 * idv.len() + 32 * auv.len() + 2 * kv.len() + 4;
                let bl = buflen(needed, *delta);
                let short = bl < needed;
                out.nontrivial = near || short;
                out.label(if *via_json { "filter-counts:json" } else { "filter-counts:parts" });
                let check = |f: &Filter| -> R {
                    let gi: Vec<Vec<u8>> = f.ids().map(|x| x.as_slice().to_vec()).collect();
                    let ga: Vec<Vec<u8>> = f.authors().map(|x| x.as_slice().to_vec()).collect();
                    let gk: Vec<u16> = f.kinds().map(|x| x.as_u16()).collect();
                    if f.num_ids() != idv.len() || gi.len() != idv.len() || gi.iter().zip(idv.iter()).any(|(a, b)| a.as_slice() != b.as_slice()) {
                        return R::Bad(format!("ids: num_ids()={} iter={} given={}", f.num_ids(), gi.len(), idv.len()));
                    }
                    if f.num_authors() != auv.len() || ga.len() != auv.len() || ga.iter().zip(auv.iter()).any(|(a, b)| a.as_slice() != b.as_slice()) {
                        return R::Bad(format!("authors: num_authors()={} iter={} given={}", f.num_authors(), ga.len(), auv.len()));
                    }
                    if f.num_kinds() != kv.len() || gk != kv {
                        return R::Bad(format!("kinds: num_kinds()={} iter={} given={}", f.num_kinds(), gk.len(), kv.len()));
                    }
                    match f.tags() {
                        Ok(t) if t.count() == 0 => R::Ok,
                        Ok(t) => R::Bad(format!("tags().count()={} but none given", t.count())),
                        Err(e) => R::Bad(format!("tags() fails: {e}")),
                    }
                };
                let r = if *via_json {
                    let f = MFilter {
                        ids: idv.iter().map(|a| hex(a)).collect(),
                        authors: auv.iter().map(|a| hex(a)).collect(),
                        kinds: kv.clone(),
                        ..Default::default()
                    };
                    let text = render_filter(&f, &Plan::default());
                    guard("Filter::from_json", || with_buf(bl, |buf| match Filter::from_json(text.as_bytes(), buf) {
                        Ok((_, _, f)) => check(f),
                        Err(_) => R::Err,
                    }))
                } else {
                    let ids: Vec<Id> = idv.iter().map(|a| Id::from_bytes(*a)).collect();
                    let aus: Vec<Pubkey> = auv.iter().map(|a| Pubkey::from_bytes(*a)).collect();
                    let ks: Vec<Kind> = kv.iter().map(|k| Kind::from_u16(*k)).collect();
                    let tags = OwnedTags::empty();
                    if *delta == 0 {
                        guard("OwnedFilter::new", || (match OwnedFilter::new(&ids, &aus, &ks, &tags, None, None, None) {
                            Ok(f) => check(&f),
                            Err(_) => R::Err,
                        }, true))
                    } else {
                        guard("Filter::from_parts", || with_buf(bl, |buf| match Filter::from_parts(&ids, &aus, &ks, &tags, None, None, None, buf) {
                            Ok(f) => check(f),
                            Err(_) => R::Err,
                        }))
                    }
                };
                let via = if *via_json { "json" } else { "parts" };
                match r {
                    Ok((R::Err, canary)) => {
                        out.label("err");
                        if !canary {
                            out.fail(format!("C19:wrote-past-buffer:filter-{via}"), "canary modified");
                        }
                    }
                    Ok((R::Ok, canary)) => {
                        out.label("faithful");
                        if !canary {
                            out.fail(format!("C19:wrote-past-buffer:filter-{via}"), "canary modified");
                        } else if oversized {
                            out.fail(format!("C19:oversized-accepted:filter-{via}"), "more than 65,535 ids/authors/kinds accepted");
                        } else if short {
                            out.fail(format!("C19:short-buffer-accepted:filter-{via}"), format!("buffer {bl} < needed {needed} yet Ok"));
                        }
                    }
                    Ok((R::Bad(e), _)) => out.fail(format!("C19:unfaithful:filter-{via}:{}", if oversized { "oversized" } else { "in-range" }), e),
                    Err(f) => out.fail(format!("C19:{}", f.key), f.detail),
                }
            }
        }
        out
    }
}
