//! C07 Filter JSON parsing is faithful, order-independent and round-trips.

use crate::engine::*;
use crate::jsonx::*;
use crate::model::*;
use crate::props::c01::err_class;
use pocket_types::Filter;
use proptest::prelude::*;
use serde::{Deserialize, Serialize};

#[derive(Clone, Debug, Serialize, Deserialize)]
pub struct Case {
    pub f: MFilter,
    pub plan: Plan,
    /// a second member order for the same members (order-independence)
    pub order_b: Vec<u8>,
    /// explicit texts for limit / since / until ("" = take from the model)
    pub ints: Option<(String, String, String)>,
    pub buf: u8,
    pub fill: u8,
}

pub struct C07;

pub const LETTERS: &[u8; 52] = b"abcdefghijklmnopqrstuvwxyzABCDEFGHIJKLMNOPQRSTUVWXYZ";

pub fn letter_set(max: usize) -> BoxedStrategy<Vec<u8>> {
    prop::collection::vec(0usize..52, 0..=max)
        .prop_map(|v| {
            let mut seen = Vec::new();
            for i in v {
                if !seen.contains(&LETTERS[i]) {
                    seen.push(LETTERS[i]);
                }
            }
            seen
        })
        .boxed()
}

pub fn mfilter_strategy(maxlen: usize) -> BoxedStrategy<MFilter> {
    (
        prop::collection::vec(hex32(), 0..4),
        prop::collection::vec(hex32(), 0..4),
        prop::collection::vec(any_kind(), 0..5),
        prop_oneof![4 => letter_set(4), 1 => letter_set(40)],
        prop::collection::vec(prop::collection::vec(rich_string(maxlen), 0..4), 52),
        prop::option::weighted(0.4, any_time()),
        prop::option::weighted(0.4, any_time()),
        prop::option::weighted(0.5, prop_oneof![0u32..5, Just(u32::MAX - 1), Just(u32::MAX), any::<u32>()]),
        prop_oneof![4 => Just(0u8), 1 => 1u8..=255],
    )
        .prop_map(|(mut ids, mut authors, mut kinds, letters, mut vals, since, until, limit, dups)| {
            // repeated list elements (a client that merges follow lists): next to each other or at the far end
            if dups != 0 {
                fn dup<T: Clone>(v: &mut Vec<T>, sel: u8) {
                    if !v.is_empty() {
                        let i = (sel as usize >> 2) % v.len();
                        let x = v[i].clone();
                        if sel & 2 == 0 {
                            v.insert(i + 1, x);
                        } else {
                            v.push(x);
                        }
                    }
                }
                match dups % 4 {
                    0 => dup(&mut ids, dups),
                    1 => dup(&mut authors, dups),
                    2 => dup(&mut kinds, dups),
                    _ => {
                        if let Some(v) = vals.iter_mut().find(|v| !v.is_empty()) {
                            dup(v, dups);
                        }
                    }
                }
            }
            MFilter {
                ids,
                authors,
                kinds,
                tags: letters
                    .iter()
                    .enumerate()
                    .map(|(i, l)| ((*l as char).to_string(), vals[i].clone()))
                    .collect(),
                since,
                until,
                limit,
            }
        })
        .boxed()
}

pub const LIMIT_TABLE: [&str; 10] = [
    "0", "1", "4294967294", "4294967295", "4294967296", "4294967297", "9223372036854775808", "18446744073709551615",
    "18446744073709551616", "1000000000000000000000000000000",
];
pub const TIME_TABLE: [&str; 9] = [
    "0", "1", "4294967296", "9223372036854775808", "18446744073709551615", "18446744073709551616",
    "18446744073709551617", "1000000000000000000000000000000", "36893488147419103232",
];

#[derive(Debug, Clone, PartialEq)]
pub struct FParsed {
    pub consumed: usize,
    pub outcount: usize,
    pub bytes: Vec<u8>,
    pub ids: Vec<Vec<u8>>,
    pub authors: Vec<Vec<u8>>,
    pub kinds: Vec<u16>,
    pub tags: Vec<Vec<Vec<u8>>>,
    pub since: u64,
    pub until: u64,
    pub limit: u32,
    pub json: Result<Vec<u8>, String>,
}

pub fn snapshot_filter(f: &Filter) -> Result<FParsed, String> {
    let tags = f.tags().map_err(|e| format!("INCONSISTENT: tags(): {e}"))?;
    let tv: Vec<Vec<Vec<u8>>> = tags.iter().map(|t| t.map(|s| s.to_vec()).collect()).collect();
    let ids: Vec<Vec<u8>> = f.ids().map(|i| i.as_slice().to_vec()).collect();
    let authors: Vec<Vec<u8>> = f.authors().map(|i| i.as_slice().to_vec()).collect();
    let kinds: Vec<u16> = f.kinds().map(|k| k.as_u16()).collect();
    if ids.len() != f.num_ids() || authors.len() != f.num_authors() || kinds.len() != f.num_kinds() {
        return Err("INCONSISTENT: iterator lengths disagree with num_*()".into());
    }
    crate::model::iter_protocol("Filter::ids()", || f.ids(), |i| i.as_slice().to_vec(), &ids)?;
    crate::model::iter_protocol("Filter::authors()", || f.authors(), |i| i.as_slice().to_vec(), &authors)?;
    crate::model::iter_protocol("Filter::kinds()", || f.kinds(), |k| k.as_u16(), &kinds)?;
    crate::model::iter_protocol("Filter::tags() tag iterator", || tags.iter(), |t| t.map(|s| s.to_vec()).collect::<Vec<_>>(), &tv)?;
    if let Some(want) = tv.first() {
        crate::model::iter_protocol("tag string iterator", || tags.iter().next().unwrap(), |s| s.to_vec(), want)?;
    }
    Ok(FParsed {
        consumed: 0,
        outcount: f.len(),
        bytes: f.as_bytes().to_vec(),
        ids,
        authors,
        kinds,
        tags: tv,
        since: f.since().as_u64(),
        until: f.until().as_u64(),
        limit: f.limit(),
        json: f.as_json().map_err(|e| e.to_string()),
    })
}

pub fn pocket_parse_filter(text: &[u8], buflen: usize, fill: u8) -> Result<Result<FParsed, String>, Fail> {
    const CANARY: usize = 64;
    let mut backing = vec![fill; buflen + CANARY];
    for b in backing[buflen..].iter_mut() {
        *b = 0xA5;
    }
    let r = guard("Filter::from_json", || {
        let (buf, _) = backing.split_at_mut(buflen);
        match Filter::from_json(text, buf) {
            Ok((n, m, f)) => {
                let mut p = snapshot_filter(f)?;
                p.consumed = n;
                if m != f.len() {
                    return Err("INCONSISTENT: returned output count differs from filter length".into());
                }
                Ok(p)
            }
            Err(e) => Err(err_class(&e)),
        }
    })?;
    if !backing[buflen..].iter().all(|b| *b == 0xA5) {
        return Ok(Err("INCONSISTENT: canary after the output buffer was modified".into()));
    }
    Ok(r)
}

fn meaning(p: &FParsed) -> (Vec<Vec<u8>>, Vec<Vec<u8>>, Vec<u16>, Vec<Vec<Vec<u8>>>, u64, u64, u32) {
    let mut tags = p.tags.clone();
    tags.sort();
    (p.ids.clone(), p.authors.clone(), p.kinds.clone(), tags, p.since, p.until, p.limit)
}

pub fn compare_filter_view(p: &FParsed, v: &FilterView) -> Option<(String, String)> {
    if p.consumed != v.end {
        return Some(("consumed-length".into(), format!("consumed {} but the object ends at {}", p.consumed, v.end)));
    }
    if p.ids != v.ids {
        return Some(("accessor:ids".into(), format!("ids: pocket {} vs reader {}", p.ids.len(), v.ids.len())));
    }
    if p.authors != v.authors {
        return Some(("accessor:authors".into(), format!("authors: pocket {} vs reader {}", p.authors.len(), v.authors.len())));
    }
    let vk: Vec<u128> = p.kinds.iter().map(|k| *k as u128).collect();
    if vk != v.kinds {
        return Some(("accessor:kinds".into(), format!("kinds: pocket {:?} vs reader {:?}", p.kinds, v.kinds)));
    }
    let exp_tags: Vec<Vec<Vec<u8>>> = v
        .tags
        .iter()
        .map(|(n, vals)| {
            let mut t = vec![n.as_bytes().to_vec()];
            t.extend(vals.iter().map(|s| s.as_bytes().to_vec()));
            t
        })
        .collect();
    if p.tags != exp_tags {
        return Some((
            "accessor:tags".into(),
            format!(
                "tags: pocket {:?} vs reader {:?}",
                p.tags.iter().map(|t| t.iter().map(|s| String::from_utf8_lossy(s).to_string()).collect::<Vec<_>>()).collect::<Vec<_>>(),
                v.tags
            ),
        ));
    }
    let chk = |name: &str, got: u128, exp: Option<u128>, default: u128, max: u128| -> Option<(String, String)> {
        match exp {
            None => {
                if got != default {
                    Some((format!("accessor:{name}"), format!("{name} absent but pocket reports {got}")))
                } else {
                    None
                }
            }
            Some(x) if x <= max => {
                if got != x {
                    Some((format!("accessor:{name}"), format!("{name}: pocket {got} vs reader {x}")))
                } else {
                    None
                }
            }
            Some(x) => {
                // out of range: accepted only if saturated
                if got != max {
                    Some((format!("int-wrapped:{name}"), format!("{name}: text says {x}, pocket reports {got} (neither rejected nor saturated)")))
                } else {
                    None
                }
            }
        }
    };
    if let Some(x) = chk("since", p.since as u128, v.since, 0, u64::MAX as u128) {
        return Some(x);
    }
    if let Some(x) = chk("until", p.until as u128, v.until, u64::MAX as u128, u64::MAX as u128) {
        return Some(x);
    }
    if let Some(x) = chk("limit", p.limit as u128, v.limit, u32::MAX as u128, u32::MAX as u128) {
        return Some(x);
    }
    None
}

/// as_json output must be valid, carry the same values, and parse back byte-identically.
pub fn check_roundtrip(p: &FParsed, out: &mut Outcome, what: &str) {
    let js = match &p.json {
        Ok(j) => j.clone(),
        Err(e) => {
            out.fail(format!("C07:{what}:as_json-failed"), e.clone());
            return;
        }
    };
    let view = match filter_view(&js) {
        Some(v) if v.end == js.len() => v,
        _ => {
            out.fail(
                format!("C07:{what}:as_json-invalid"),
                format!("independent reader rejects as_json output: {}", String::from_utf8_lossy(&js)),
            );
            return;
        }
    };
    if !view.well_typed {
        out.fail(
            format!("C07:{what}:as_json-ill-typed"),
            format!("as_json output is not a well-typed filter ({}): {}", view.why_not, String::from_utf8_lossy(&js)),
        );
        return;
    }
    let mut q = p.clone();
    q.consumed = js.len();
    if let Some((k, d)) = compare_filter_view(&q, &view) {
        out.fail(format!("C07:{what}:as_json:{k}"), format!("as_json output read back differs: {d}; json={}", String::from_utf8_lossy(&js)));
        return;
    }
    match pocket_parse_filter(&js, p.bytes.len() + 64, 0x5a) {
        Ok(Ok(r)) => {
            if r.bytes != p.bytes {
                let off = r.bytes.iter().zip(p.bytes.iter()).position(|(a, b)| a != b).unwrap_or(r.bytes.len().min(p.bytes.len()));
                out.fail(
                    format!("C07:{what}:roundtrip-differs"),
                    format!("from_json(as_json(f)) differs from f at offset {off} (lens {} / {}); json={}", r.bytes.len(), p.bytes.len(), String::from_utf8_lossy(&js)),
                );
            }
        }
        Ok(Err(e)) => out.fail(
            format!("C07:{what}:roundtrip-rejected:{e}"),
            format!("from_json rejects as_json output: {e}; json={}", String::from_utf8_lossy(&js)),
        ),
        Err(f) => out.fail(format!("C07:{what}:{}", f.key), f.detail),
    }
}

fn case_for_letters(letters: &[u8], n: usize) -> Case {
    Case {
        f: MFilter {
            ids: vec![],
            authors: vec![],
            kinds: if n % 3 == 0 { vec![1] } else { vec![] },
            tags: letters
                .iter()
                .enumerate()
                .map(|(i, l)| ((*l as char).to_string(), vec![format!("v{i}"), "w".to_string()]))
                .collect(),
            since: None,
            until: None,
            limit: None,
        },
        plan: Plan::default(),
        order_b: (0..8u8).rev().collect(),
        ints: None,
        buf: 10,
        fill: 0,
    }
}

impl Prop for C07 {
    type Case = Case;
    fn id(&self) -> &'static str {
        "C07"
    }
    fn rule(&self) -> String {
        "Cases: a filter model (0..3 ids/authors, 0..4 kinds, 0..40 distinct tag letters with 0..3 values each incl. values needing escapes, optional since/until/limit) rendered by a plan (member order, whitespace, escape spelling, unknown members incl. NIP-50 search) plus explicit limit/since/until texts from boundary tables, and a second member order. Oracle: serde_json reader decides the must-accept domain and the expected values; both orders must be accepted/rejected alike with the same meaning; out-of-range integers rejected or saturated; as_json of every accepted filter and of the same filter built from parts is valid JSON with the same values and parses back byte-identically. Enumerated first: all 52 single letters and all 52x52 ordered letter pairs, all ordered triples over 12 letters, 33..52 distinct letters, limit x since/until boundary tables. Non-trivial: >= 2 tag letters, or an unknown member, or an explicit boundary integer, or a value needing an escape.".into()
    }
    fn assumptions(&self) -> Vec<String> {
        vec![
            "serde_json is the independent parser.".into(),
            "Must-accept domain: NIP-01 members with literal names, lower-case 64-hex ids/authors, kinds 0..=65535, single-letter (A-Z, a-z) tag names without duplicates, plain decimal integers; the binary tag section must fit 65,535 bytes.".into(),
            "'Same meaning' across member orders compares ids, authors, kinds, since, until, limit and the set of tag constraints (binary tag order follows text order, which the property does not constrain).".into(),
        ]
    }
    fn cases(&self, tier: Tier) -> u32 {
        tier.pick(80_000, 500_000)
    }
    fn enumerated_subspaces(&self, _tier: Tier) -> Vec<String> {
        vec![
            "all 52 single tag letters".into(),
            "all 52 x 52 ordered pairs of tag letters (equal letters = duplicate, must be rejected in both orders)".into(),
            "all ordered triples over the 12 letters a b c d e p t A B E P Z".into(),
            "33..=52 distinct letters".into(),
            format!("{} limit texts x {} since texts x until in {{absent, same table}} (diagonal)", LIMIT_TABLE.len(), TIME_TABLE.len()),
        ]
    }
    fn enumerate(&self, _tier: Tier) -> Vec<Case> {
        let mut v = Vec::new();
        let mut n = 0;
        for a in LETTERS.iter() {
            v.push(case_for_letters(&[*a], n));
            n += 1;
            for b in LETTERS.iter() {
                v.push(case_for_letters(&[*a, *b], n));
                n += 1;
            }
        }
        let sub = b"abcdeptABEPZ";
        for a in sub {
            for b in sub {
                for c in sub {
                    if a != b && b != c && a != c {
                        v.push(case_for_letters(&[*a, *b, *c], n));
                        n += 1;
                    }
                }
            }
        }
        for k in 33..=52usize {
            v.push(case_for_letters(&LETTERS[..k], n));
            n += 1;
        }
        for l in LIMIT_TABLE {
            for s in TIME_TABLE {
                for u in ["", s] {
                    let mut c = case_for_letters(b"e", n);
                    c.ints = Some((l.to_string(), s.to_string(), u.to_string()));
                    v.push(c);
                    n += 1;
                }
            }
        }
        v
    }
    fn strategy(&self, tier: Tier) -> BoxedStrategy<Case> {
        let maxlen = tier.pick(16, 200);
        let int_txt = |table: &'static [&'static str]| {
            prop_oneof![
                2 => Just(String::new()),
                2 => prop::sample::select(table.to_vec()).prop_map(|s| s.to_string()),
                1 => "[1-9][0-9]{0,24}",
                // exactly as many digits as the largest value of the field (20 for u64, 10 for u32): numbers just
                // beyond the range that may wrap to anything
                1 => "[1-9][0-9]{19}",
                1 => "[4-9][0-9]{9}",
            ]
        };
        (
            mfilter_strategy(maxlen),
            plan_strategy(12, 2, tier.pick(3, 8)),
            Just((0..48u8).collect::<Vec<u8>>()).prop_shuffle(),
            prop::option::weighted(0.25, (int_txt(&LIMIT_TABLE), int_txt(&TIME_TABLE), int_txt(&TIME_TABLE))),
            0u8..12,
            prop_oneof![Just(0u8), Just(0xffu8), any::<u8>()],
        )
            .prop_map(|(f, plan, order_b, ints, buf, fill)| Case {
                f,
                plan,
                order_b,
                ints,
                buf,
                fill,
            })
            .boxed()
    }
    fn label_floors(&self) -> Vec<(&'static str, f64)> {
        vec![("must-accept", 0.4), ("accepted", 0.4), ("unknown-member", 0.03)]
    }
    fn check(&self, c: &Case) -> Outcome {
        let mut out = Outcome::default();
        let cur = c.plan.cur();
        let ints = c.ints.as_ref().map(|(a, b, d)| (a.as_str(), b.as_str(), d.as_str()));
        let members = filter_members(&c.f, &cur, ints);
        let text_a = assemble(&members, &c.plan, &cur).into_bytes();
        // second order: same members, same unknowns, same whitespace/spelling supplies
        let mut plan_b = c.plan.clone();
        plan_b.order = c.order_b.clone();
        let cur_b = plan_b.cur();
        let members_b = filter_members(&c.f, &cur_b, ints);
        let text_b = assemble(&members_b, &plan_b, &cur_b).into_bytes();

        let view = match filter_view(&text_a) {
            Some(v) => v,
            None => {
                out.label("not-json-object");
                return out;
            }
        };
        let needs_escape = c.f.tags.iter().any(|(_, vs)| vs.iter().any(|s| s.chars().any(|ch| (ch as u32) < 0x20 || ch == '"' || ch == '\\' || (ch as u32) >= 0x80)));
        if c.f.tags.len() >= 2 {
            out.label("multi-letter-set");
        }
        if !c.plan.unknown.is_empty() {
            out.label("unknown-member");
        }
        if c.ints.is_some() {
            out.label("explicit-integer");
        }
        if needs_escape {
            out.label("needs-escape");
        }
        out.nontrivial = c.f.tags.len() >= 2 || !c.plan.unknown.is_empty() || c.ints.is_some() || needs_escape;

        // tag section size of the binary filter
        let tag_parts: Vec<Vec<String>> = view
            .tags
            .iter()
            .map(|(n, vs)| {
                let mut t = vec![n.clone()];
                t.extend(vs.iter().cloned());
                t
            })
            .collect();
        let tsize = tags_size(&tag_parts);
        let mut must = view.must_accept;
        if tsize > 65535 {
            must = false;
            out.label("outside:tags-too-big");
        }
        if must {
            out.label("must-accept");
        } else {
            out.label(format!("outside:{}", view.why_not));
        }
        let needed = 32 + 32 * view.ids.len() + 32 * view.authors.len() + 2 * view.kinds.len() + tsize;
        let buflen = match c.buf {
            0 => needed,
            1..=8 => needed + c.buf as usize,
            9 => needed + 4096,
            _ => 70_000 + text_a.len(),
        };
        let ra = match pocket_parse_filter(&text_a, buflen, c.fill) {
            Ok(r) => r,
            Err(f) => {
                if must || view.int_out_of_range {
                    out.fail(format!("C07:{}", f.key), f.detail);
                } else {
                    out.label("panic-outside-domain(C03)");
                }
                return out;
            }
        };
        let rb = match pocket_parse_filter(&text_b, 70_000 + text_b.len(), c.fill) {
            Ok(r) => r,
            Err(f) => {
                if must || view.int_out_of_range {
                    out.fail(format!("C07:{}", f.key), f.detail);
                } else {
                    out.label("panic-outside-domain(C03)");
                }
                return out;
            }
        };
        for r in [&ra, &rb] {
            if let Err(e) = r {
                if e.starts_with("INCONSISTENT") {
                    out.fail("C07:accessors-inconsistent", e.clone());
                    return out;
                }
            }
        }
        // order independence (only meaningful when the text is a well-typed filter without duplicates)
        if view.well_typed {
            match (&ra, &rb) {
                (Ok(a), Ok(b)) => {
                    if meaning(a) != meaning(b) {
                        out.fail(
                            "C07:order-dependent-meaning",
                            format!("two member orders parse to different filters:\n A={}\n B={}", String::from_utf8_lossy(&text_a), String::from_utf8_lossy(&text_b)),
                        );
                        return out;
                    }
                }
                (Ok(_), Err(e)) | (Err(e), Ok(_)) => {
                    out.fail(
                        "C07:order-dependent-acceptance",
                        format!("accepted in one member order, rejected ({e}) in another:\n A={}\n B={}", String::from_utf8_lossy(&text_a), String::from_utf8_lossy(&text_b)),
                    );
                    return out;
                }
                _ => {}
            }
        }
        match &ra {
            Ok(p) => {
                out.label("accepted");
                if !view.well_typed {
                    // accepted a valid JSON text that the reader does not see as a filter:
                    // only a problem if pocket extracted values the text does not contain
                    out.label("accepted-ill-typed");
                } else if let Some((k, d)) = compare_filter_view(p, &view) {
                    out.fail(format!("C07:{k}"), format!("{d}; text={}", String::from_utf8_lossy(&text_a)));
                    return out;
                }
                check_roundtrip(p, &mut out, "parsed");
                if out.failed() {
                    return out;
                }
                // same filter from parts (only for in-domain models)
                let unknown_is_known = c.plan.unknown.iter().any(|u| {
                    matches!(u.name.as_str(), "ids" | "authors" | "kinds" | "since" | "until" | "limit") || is_filter_tag_name(&u.name)
                });
                if must && c.ints.is_none() && !unknown_is_known {
                    match guard("OwnedFilter::new", || c.f.to_owned_filter()) {
                        Ok(Ok(of)) => match guard("Filter accessors", || snapshot_filter(&of)) {
                            Ok(Ok(q)) => {
                                if meaning(&q) != meaning(p) {
                                    out.fail("C07:from-parts-differs", "filter built from parts has a different meaning than the parsed one");
                                    return out;
                                }
                                // the same parts written into a caller-supplied buffer with prior contents: same bytes
                                let mut dirty = vec![c.fill | 0x11; q.bytes.len() + 8];
                                let same = guard("Filter::from_parts", || {
                                    let ids: Vec<pocket_types::Id> = c.f.ids.iter().map(|s| pocket_types::Id::from_bytes(arr32(s))).collect();
                                    let authors: Vec<pocket_types::Pubkey> = c.f.authors.iter().map(|s| pocket_types::Pubkey::from_bytes(arr32(s))).collect();
                                    let kinds: Vec<pocket_types::Kind> = c.f.kinds.iter().map(|k| pocket_types::Kind::from_u16(*k)).collect();
                                    let tags = of.tags().map_err(|e| e.to_string())?;
                                    Filter::from_parts(&ids, &authors, &kinds, tags, c.f.since.map(pocket_types::Time::from_u64), c.f.until.map(pocket_types::Time::from_u64), c.f.limit, &mut dirty)
                                        .map(|f| f.as_bytes() == q.bytes.as_slice() && f == &*of)
                                        .map_err(|e| e.to_string())
                                });
                                match same {
                                    Ok(Ok(true)) => {}
                                    Ok(Ok(false)) => {
                                        out.fail("C07:from-parts-noncanonical", "Filter::from_parts into a buffer with prior contents differs (bytes or ==) from OwnedFilter::new of the same parts");
                                        return out;
                                    }
                                    Ok(Err(e)) => {
                                        out.fail("C07:from-parts-failed", e);
                                        return out;
                                    }
                                    Err(f) => {
                                        out.fail(format!("C07:from-parts:{}", f.key), f.detail);
                                        return out;
                                    }
                                }
                                check_roundtrip(&q, &mut out, "from-parts");
                            }
                            Ok(Err(e)) => out.fail("C07:from-parts:accessors", e),
                            Err(f) => out.fail(format!("C07:from-parts:{}", f.key), f.detail),
                        },
                        Ok(Err(_)) => out.label("from-parts-refused"),
                        Err(f) => out.fail(format!("C07:from-parts:{}", f.key), f.detail),
                    }
                }
            }
            Err(e) => {
                out.label("rejected");
                if must {
                    out.fail(format!("C07:rejected:{e}"), format!("in-domain filter rejected: {e}; text={}", String::from_utf8_lossy(&text_a)));
                }
            }
        }
        out
    }
}

/// Oracle for an arbitrary filter text (used by the fuzz target).
pub fn check_raw(text: &[u8], buf: u8, fill: u8) -> Outcome {
    let mut out = Outcome::default();
    let view = match filter_view(text) {
        Some(v) => v,
        None => {
            out.label("not-json-object");
            return out;
        }
    };
    let tag_parts: Vec<Vec<String>> = view
        .tags
        .iter()
        .map(|(n, vs)| {
            let mut t = vec![n.clone()];
            t.extend(vs.iter().cloned());
            t
        })
        .collect();
    let tsize = tags_size(&tag_parts);
    let must = view.must_accept && tsize <= 65535;
    out.nontrivial = view.well_typed;
    let needed = 32 + 32 * view.ids.len() + 32 * view.authors.len() + 2 * view.kinds.len() + tsize;
    let buflen = match buf % 12 {
        0 => needed,
        b @ 1..=8 => needed + b as usize,
        9 => needed + 4096,
        _ => 70_000 + text.len(),
    };
    match pocket_parse_filter(text, buflen, fill) {
        Ok(Ok(p)) => {
            out.label("accepted");
            if view.well_typed {
                if let Some((k, d)) = compare_filter_view(&p, &view) {
                    out.fail(format!("C07:{k}"), format!("{d}; text={}", String::from_utf8_lossy(text)));
                    return out;
                }
            }
            let strings_utf8 = p.tags.iter().flatten().all(|s| std::str::from_utf8(s).is_ok());
            if strings_utf8 {
                check_roundtrip(&p, &mut out, "parsed");
            }
        }
        Ok(Err(e)) => {
            if e.starts_with("INCONSISTENT") {
                out.fail("C07:accessors-inconsistent", e);
            } else if must {
                out.fail(format!("C07:rejected:{e}"), format!("in-domain filter rejected: {e}; text={}", String::from_utf8_lossy(text)));
            }
        }
        Err(f) => {
            if must || view.int_out_of_range {
                out.fail(format!("C07:{}", f.key), f.detail);
            }
        }
    }
    out
}
