pub mod c01;
pub mod c02;
pub mod c03;
pub mod c06;
pub mod c07;
pub mod c08;
pub mod c19;
pub mod c20;
