pub mod c01;
