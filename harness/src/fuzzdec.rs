//! Decoding of raw fuzzer bytes into property cases (shared by the libFuzzer targets and by
//! `pvcheck replay-raw`, so that a crash artifact replays through the plain regression path).

use crate::model::Bytes;
use crate::props::{c01, c03};

/// First two bytes select the output buffer and its fill; the rest is the text.
pub fn split(data: &[u8]) -> (u8, u8, &[u8]) {
    if data.len() < 2 {
        (10, 0, data)
    } else {
        (data[0], data[1], &data[2..])
    }
}

pub fn c01_case(data: &[u8]) -> c01::Case {
    let (b, fill, text) = split(data);
    c01::Case {
        src: c01::Src::Raw { text: Bytes::from_vec(text.to_vec()) },
        buf: b % 12,
        fill,
    }
}

/// Output length: small values, around the input-derived need, or large.
pub fn outlen_for(sel: u8, text_len: usize) -> u32 {
    match sel % 4 {
        0 => (sel as u32) * 3,
        1 => (text_len as u32 / 2 + sel as u32) % 70_000,
        2 => 4096,
        _ => 70_000,
    }
}

pub fn c03_case(target: c03::Target, data: &[u8]) -> c03::Case {
    let (b, fill, text) = split(data);
    c03::Case {
        target,
        input: Bytes::from_vec(text.to_vec()),
        outlen: outlen_for(b, text.len()),
        fill,
        pristine: false,
    }
}

pub fn hexaddr_case(data: &[u8]) -> c03::Case {
    let target = match data.first().copied().unwrap_or(0) % 5 {
        0 => c03::Target::HexId,
        1 => c03::Target::HexPubkey,
        2 => c03::Target::HexSig,
        3 => c03::Target::Hll,
        _ => c03::Target::Addr,
    };
    let text = if data.is_empty() { data } else { &data[1..] };
    c03::Case {
        target,
        input: Bytes::from_vec(text.to_vec()),
        outlen: 0,
        fill: 0,
        pristine: false,
    }
}

use crate::engine::{Fail, Outcome, Prop};

/// Runs every oracle that belongs to a fuzz target on one input; returns (property, failure) pairs.
pub fn run_target(target: &str, data: &[u8]) -> Vec<(&'static str, Fail)> {
    let mut fails: Vec<(&'static str, Fail)> = Vec::new();
    let mut take = |prop: &'static str, o: Outcome| {
        if let Some(f) = o.fail {
            fails.push((prop, f));
        }
    };
    match target {
        "event_json" => {
            let (_, _, text) = split(data);
            take("C03", crate::props::c03::C03.check(&c03_case(c03::Target::Event, data)));
            take("C01", c01::C01.check(&c01_case(data)));
            take("C02", crate::props::c02::roundtrip_raw(text));
        }
        "filter_json" => {
            let (b, fill, text) = split(data);
            take("C03", crate::props::c03::C03.check(&c03_case(c03::Target::Filter, data)));
            take("C07", crate::props::c07::check_raw(text, b, fill));
        }
        "tags_json" => take("C03", crate::props::c03::C03.check(&c03_case(c03::Target::Tags, data))),
        "unescape" => {
            take("C03", crate::props::c03::C03.check(&c03_case(c03::Target::Unescape, data)));
            let (_, _, text) = split(data);
            take("C01", unescape_differential(text));
        }
        "hexaddr" => take("C03", crate::props::c03::C03.check(&hexaddr_case(data))),
        _ => {}
    }
    fails
}

/// json_unescape against serde_json on the same string body (text up to the first unescaped quote).
fn unescape_differential(text: &[u8]) -> Outcome {
    let mut out = Outcome::default();
    let mut outbuf = vec![0u8; text.len() * 4 + 8];
    let r = crate::engine::guard("json_unescape", || pocket_types::json::json_unescape(text, &mut outbuf).ok());
    let Ok(Some((consumed, written))) = r else { return out };
    if consumed > text.len() || text.get(consumed) != Some(&b'"') {
        return out; // no closing quote: the caller would reject
    }
    if crate::jsonx::has_surrogate_escape(&text[..consumed]) {
        return out;
    }
    let mut lit = vec![b'"'];
    lit.extend_from_slice(&text[..consumed]);
    lit.push(b'"');
    if let Ok(s) = serde_json::from_slice::<String>(&lit) {
        out.nontrivial = true;
        if s.as_bytes() != &outbuf[..written] {
            out.fail("C01:unescape-differs", format!("json_unescape gives {:?}, serde_json {:?} for {:?}", String::from_utf8_lossy(&outbuf[..written]), s, String::from_utf8_lossy(&lit)));
        }
    }
    out
}
