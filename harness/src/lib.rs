//! Verification harness for mikedilger/pocket: proptest-driven engine, generators, oracles and one
//! module per property. Used by the `pvcheck` binary and by the libFuzzer targets in ../fuzz.
pub mod dbx;
pub mod engine;
pub mod fuzzdec;
pub mod jsonx;
pub mod model;
pub mod props;
pub mod sha256;
