#![no_main]
//! libFuzzer target "event_json": the semantic oracles live in pvharness::fuzzdec::run_target (the same code
//! path as `pvcheck fuzz-one event_json <file>`), so a saved artifact replays without the fuzzer.
use libfuzzer_sys::fuzz_target;
use std::sync::Once;

static INIT: Once = Once::new();

fuzz_target!(|data: &[u8]| {
    INIT.call_once(|| {
        // libfuzzer-sys installs a hook that aborts on any panic; the harness classifies panics itself
        pvharness::engine::install_panic_hook();
        std::env::set_var("PV_NO_ISOLATE", "1");
    });
    let fails = pvharness::fuzzdec::run_target("event_json", data);
    if let Some((prop, f)) = fails.into_iter().next() {
        eprintln!("ORACLE-FAILURE property={} key={} detail={}", prop, f.key, f.detail);
        std::process::abort();
    }
});
