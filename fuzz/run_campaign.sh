#!/bin/bash
# fuzz/run_campaign.sh <Cnn> [seconds-per-target]
# Thorough-tier coverage-guided campaign (libFuzzer + ASan) for the fuzz targets that serve a property.
# The semantic oracles are inside the targets; every crash artifact is replayed through
# `pvcheck fuzz-one` (plain regression path), which attributes it to a property and prints the
# VIOLATION line. Hitting the time cap is not a failure. Writes $PV_ROOT/out/parts/fuzz-<Cnn>.json.
set -u
HERE="$(cd "$(dirname "$0")" && pwd)"
ROOT="${PV_ROOT:-$(dirname "$HERE")}"
id="$1"; secs="${2:-${PV_FUZZ_SECS:-90}}"
seed="${VERIF_SEED:-1}"
case "$id" in
  C01|C02) targets="event_json unescape" ;;
  C03) targets="event_json filter_json tags_json unescape hexaddr" ;;
  C07) targets="filter_json" ;;
  C19) targets="event_json filter_json tags_json" ;;
  *) exit 0 ;;
esac
export CARGO_NET_OFFLINE=true
mkdir -p "$ROOT/out/fuzz" "$ROOT/out/parts" "$ROOT/out/replays"
cd "$HERE" || exit 2
cp ../harness/Cargo.lock . 2>/dev/null
if ! cargo +nightly fuzz build --fuzz-dir . >"$ROOT/out/fuzz-build.log" 2>&1; then
  echo "INCONCLUSIVE property=$id fuzz targets do not build (see out/fuzz-build.log)"; tail -5 "$ROOT/out/fuzz-build.log"; exit 2
fi
BIN="$HERE/target/x86_64-unknown-linux-gnu/release"
PVCHECK="$(dirname "$HERE")/harness/target/release/pvcheck"
mkdir -p "$ROOT/out/fuzz" "$ROOT/out/parts"
"$PVCHECK" gen-corpus "$ROOT/out/fuzz/gen" 300 >/dev/null 2>&1
rc=0; total=0; summary=""
for t in $targets; do
  work="$ROOT/out/fuzz/$t"; rm -rf "$work"; mkdir -p "$work/corpus" "$work/artifacts"
  cp "$ROOT/out/fuzz/gen/$t"/* "$work/corpus/" 2>/dev/null
  cp "$(dirname "$HERE")/corpus/$t"/* "$work/corpus/" 2>/dev/null
  "$BIN/$t" "$work/corpus" -seed="$seed" -max_total_time="$secs" -len_control=0 -max_len=8192 \
     -fork=14 -ignore_crashes=1 -artifact_prefix="$work/artifacts/" -print_final_stats=1 \
     -dict="$HERE/json.dict" >"$work/log.txt" 2>&1
  execs=$(grep -a -o "stat::number_of_executed_units: [0-9]*" "$work/log.txt" | awk '{s+=$2} END {print s+0}')
  if [ "$execs" = "0" ]; then execs=$(grep -a -o "#[0-9]*: cov" "$work/log.txt" | tail -1 | tr -dc 0-9); execs=${execs:-0}; fi
  total=$((total + execs))
  n_art=$(ls "$work/artifacts" 2>/dev/null | wc -l)
  summary="$summary{\"target\":\"$t\",\"executions\":$execs,\"artifacts\":$n_art,\"corpus\":$(ls "$work/corpus" | wc -l)},"
  if [ "$n_art" -gt 0 ]; then
    mkdir -p "$ROOT/out/replays"
    for a in "$work/artifacts"/*; do
      keep="$ROOT/out/replays/fuzz-$t-$(basename "$a")"
      cp "$a" "$keep"
      out="$("$PVCHECK" fuzz-one "$t" "$keep" 2>&1)"
      echo "$out" | grep -E "^VIOLATION property=$id " && rc=1
      echo "$out" | grep -E "^VIOLATION" | grep -v "property=$id " | sed 's/^VIOLATION/NOTE violation-of-other-property/'
      echo "$out" | grep -E "^KNOWN-FINDING"
      if ! echo "$out" | grep -q -E "^(VIOLATION|KNOWN-FINDING)"; then
        # the fuzzer crashed (e.g. ASan report) but the plain replay passes: a memory-safety finding only ASan sees
        if grep -a -q "AddressSanitizer" "$work/log.txt" && [ "$id" = "C03" ]; then
          echo "VIOLATION property=C03 replay=$keep key=C03:asan-report:$t"; rc=1
        fi
      fi
    done
  fi
done
echo "{\"property\":\"$id\",\"seconds_per_target\":$secs,\"total_executions\":$total,\"targets\":[${summary%,}]}" > "$ROOT/out/parts/fuzz-$id.json"
echo "fuzz campaign $id: $total executions over: $targets"
exit $rc
